#!/usr/bin/env python3
# validates MANIFEST.json and evidence/*.json against the schemas (uses the tooling venv's jsonschema)
import json, sys, glob, jsonschema
m = json.load(open('/verif/MANIFEST.json')); jsonschema.validate(m, json.load(open('/root/.vp/MANIFEST.schema.json')))
print("manifest valid; claimed", [c['property_id'] for c in m['checks']])
es = json.load(open('/root/.vp/EVIDENCE.schema.json'))
for f in sorted(glob.glob('/verif/evidence/*.json')):
    jsonschema.validate(json.load(open(f)), es); print(f, 'valid')
