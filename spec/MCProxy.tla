------------------------------- MODULE MCProxy -------------------------------
EXTENDS Proxy
\* header forms (the Go origin simulator renders them; see harness/proxydrv forms table).
\* One tick is 10 seconds of header time.
AllForms == {"none", "ma2", "ma5", "ma0", "nostore", "nocache", "private", "private_ma", "exp_past", "exp_fut3",
             "exp_bad", "ma2_exp_past", "public", "NoStoreCaps", "two_lines_nostore", "ma2_extra", "nostore_ma",
             "MaxAgeCaps", "exp_eq_date"}
StorableTab == [f \in AllForms |->
    CASE f \in {"none", "ma2", "ma5", "exp_fut3", "ma2_extra", "MaxAgeCaps"} -> "yes"
      [] f \in {"ma2_exp_past", "public"} -> "either"
      [] OTHER -> "no"]
\* lifetime in ticks the origin's headers give: 0 = none given (configured default applies),
\* -1 = already expired (past / unparseable Expires, max-age=0)
LifeTab == [f \in AllForms |->
    CASE f \in {"ma2", "ma2_exp_past", "ma2_extra", "MaxAgeCaps"} -> 2
      [] f \in {"ma5", "private_ma", "two_lines_nostore", "nostore_ma"} -> 5
      [] f = "exp_fut3" -> 3
      [] f \in {"exp_past", "exp_bad", "ma0", "exp_eq_date"} -> -1   \* (exp_eq_date: Expires equals the response's own Date)
      [] OTHER -> 0]
FlightForms == {"ma2", "nostore", "none", "ma5"}
RevalForms == {"ma2", "none", "exp_fut3", "ma2_extra", "MaxAgeCaps"}
\* forms on which the two switches make a difference (kept / not kept, own lifetime / default lifetime)
FlipForms == {"ma2", "nostore", "none", "ma5", "private_ma", "exp_past", "nocache"}
SmallForms == {"none", "ma2", "nostore", "exp_fut3"}
SmallStorable == [f \in SmallForms |-> StorableTab[f]]
SmallLife == [f \in SmallForms |-> LifeTab[f]]
PView == <<now, origin, store, flight, creq, contacts, nextX, served, pol>>
=============================================================================
