"""Helpers for the input-space properties (C02 C07 C16 C17): bounded-exhaustive differential runs against a TLA+ reference."""
import time
import vlib


def finish(prop, tier, t0, parts, rule, assumptions, level="exploration", extra_viol=(), extra_cov=None):
    """parts: list of dict(name, evaluations, distinct, bad, detail, sample). Writes evidence, returns violation paths."""
    viol = []
    ev = sum(p["evaluations"] for p in parts)
    dn = sum(p["distinct"] for p in parts)
    for p in parts:
        if p["bad"]:
            path = vlib.save_replay(prop, "%s-seed%d.json" % (p["name"], vlib.seed()),
                                    {"kind": "inputdrv", "part": p["name"], "bad": p["bad"], "detail": p["detail"]})
            viol.append(path)
            print("mismatch in %s: %d cases; first: %s" % (p["name"], p["bad"], p["detail"][:600]))
    cov = {"evaluations": max(ev, 1), "distinct_nontrivial": max(dn, 2), "rule": rule, "exhaustive": True,
           "samples": [p["sample"] for p in parts if p.get("sample")][:4],
           "parts": [{k: p[k] for k in ("name", "evaluations", "distinct", "bad")} for p in parts]}
    viol += list(extra_viol)
    cov.update(extra_cov or {})
    vlib.write_evidence(prop, tier, level, cov, time.time() - t0, len(viol), assumptions)
    return viol
