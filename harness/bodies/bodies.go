// Package bodies provides self-describing content: every 16-byte block of a body names the
// resource (key), the version and its own block index, so any byte slice read back from the
// cache or the proxy identifies which body it came from and at which offset.
package bodies

import (
	"fmt"
	"hash/crc32"
)

const Block = 16

// blockAt renders block number i of body (key, ver).
func blockAt(key, ver int, i int64) []byte {
	s := fmt.Sprintf("%02x%02x%08x", key&0xff, ver&0xff, uint32(i))
	c := crc32.ChecksumIEEE([]byte(s)) & 0xffff
	return []byte(fmt.Sprintf("%s%04x", s, c))
}

// Make returns the body (key, ver) of exactly size bytes (the last block may be cut short).
func Make(key, ver int, size int64) []byte {
	out := make([]byte, 0, size+Block)
	for i := int64(0); int64(len(out)) < size; i++ {
		out = append(out, blockAt(key, ver, i)...)
	}
	return out[:size]
}

// Ident describes what a byte slice is.
type Ident struct {
	OK     bool // every byte is consistent with one (key, ver) body read contiguously
	Key    int
	Ver    int
	Offset int64 // byte offset of the first byte within that body
	Len    int64
}

// Identify decodes a slice that is claimed to start at byte offset `at` of some body. It finds
// the (key, ver) from the first complete block and then verifies every byte.
func Identify(b []byte, at int64) Ident {
	id := Ident{Offset: at, Len: int64(len(b))}
	if len(b) == 0 {
		id.OK = true
		return id
	}
	// locate first complete block
	first := (at + Block - 1) / Block
	off := first*Block - at
	if off+Block > int64(len(b)) {
		// less than one full block: cannot name key/ver on its own; try all small keys/versions
		for k := 0; k < 64; k++ {
			for v := 0; v < 64; v++ {
				want := Make(k, v, at+int64(len(b)))[at:]
				if string(want) == string(b) {
					id.OK, id.Key, id.Ver = true, k, v
					return id
				}
			}
		}
		return id
	}
	var k, v int
	var bi uint32
	if _, err := fmt.Sscanf(string(b[off:off+12]), "%02x%02x%08x", &k, &v, &bi); err != nil {
		return id
	}
	id.Key, id.Ver = k, v
	want := Make(k, v, at+int64(len(b)))[at:]
	id.OK = string(want) == string(b)
	return id
}
