"""C15 Shared proxy state is free of data races (Go race detector over specification-shaped load)."""
import json, time
import vlib, racefam, cachefam


def run(tier, seed):
    t0 = time.time()
    # the lock discipline of the design is checked on the lock-level model (same configurations as C14)
    import lockfam
    m = lockfam.mc("locks_memory_s11_live", True)
    if not m.get("complete"):
        raise vlib.Inconclusive("TLC did not complete CacheLocks: %s" % m["violated"])
    r = racefam.run(20 if tier == "quick" else 120, 40 if tier == "quick" else 200, seed)
    known = {f.get("race_pair") for f in vlib.known_for("C15")}
    viol = []
    for x in r["races"]:
        if x["pair"] in known:
            print("KNOWN-FINDING: property=C15 data race %s" % x["pair"])
            continue
        viol.append(vlib.save_replay("C15", "race-%s-seed%d.json" % (vlib.digest(x["pair"]), seed), {"kind": "racedrv", "race": x}))
    cov = {"evaluations": r["ops"], "distinct_nontrivial": max(2, r["behaviours"]), "samples": [r["sample"]],
           "rule": "operation mixes of TLC-generated CacheStore behaviours (3 clients, 3 keys on 2 shards, stores/gets/deletes/metadata updates) run as free goroutines "
                   "(no harness synchronisation) on both cache backends next to janitor cycles and limit / budget / interval changes; 8 concurrent proxy clients with "
                   "hits, revalidations, range requests, expiry and config changes; concurrent subscribe/fire/unsubscribe on Event and ConfigProp; concurrent session "
                   "create/lookup/extend/destroy; concurrent certificate issuance -- all in a -race build with the verification hooks unset. Every distinct pair of "
                   "innermost reservoir frames reported by the detector is a violation. distinct_nontrivial = behaviours whose op mixes were run.",
           "races_reported": r["races"], "states": m.get("distinct"), "transitions": m.get("states"), "traces_validated_against_impl": r["behaviours"]}
    vlib.write_evidence("C15", tier, "exploration", cov, time.time() - t0, len(viol),
                        ["the verdict is the Go race detector's (no false positives; races on paths the load does not execute are not found)",
                         "TLA+ supplies the operation mixes and the lock discipline (CacheLocks); it cannot observe Go's memory model"])
    return viol


def replay(path):
    print(open(path).read()[:3000])
    return run("quick", vlib.seed())
