\* C01 family: readers x writers on the file backend, failing sources, two keys on one shard
CONSTANTS
    NKeys = 2
    NClients = 2
    ShardOf <- Shard11
    MaxVer = 2
    MaxChunks = 2
    Backend = "file"
    Dev = {}
    MaxHandles = 2
    MaxObj = 5
    InitLimit = 100
    Limits = {100}
    MemCap = 100
    TickMs = 170
    Weight = 0
    FailStores = TRUE
    Janitor = FALSE
    UseClock = FALSE
SPECIFICATION Spec
INVARIANTS CountersExact CountersNonNegative StoredComplete ReadsUnmixed NoResurrection
CHECK_DEADLOCK FALSE
CONSTRAINT ClockBound
VIEW View
