---------------------------- MODULE CacheKeyJudge ----------------------------
EXTENDS CacheKey
VARIABLE dummy
ASSUME Judge
Spec == dummy = 0 /\ [][FALSE]_dummy
=============================================================================
