"""CertCache (C11): TLC check of the issuance protocol, batch schedules, replay on the real PrivateCA."""
import json, os, shutil
import vlib

TARGETS = {"h1": "example.com:443", "h2": "EXAMPLE.com:443", "h3": "10.1.2.3:8443", "h4": "[::1]:443", "h5": "[2001:db8::1]:8443",
           "h6": "localhost:1", "h7": "a.b.c.example.org:65535", "h8": "xn--bcher-kva.example:443"}
BAD = {"b1": "example.com", "b2": "", "b3": "[::1", "b4": "example.com:443:1", "b5": ":443", "b6": ":", "b7": "example.com.:443",
       "b8": ".:443", "b9": "[]:443", "b10": "a b:443", "b11": "example.com:", "b12": "%zz:443"}
INV = ["SerialsAreHostSpecific", "CacheHoldsHandedOut", "ReuseWhenQuiet"]


def mc(callers=3, hosts=2, timeout=300):
    cfg = vlib.cfg_text(dict(Hosts={"h%d" % i for i in range(1, hosts + 1)}, NCallers=callers, MaxSerial=4), spec="Spec", invariants=INV)
    r = vlib.tlc_check("CertCache", cfg, timeout=timeout)
    r["name"] = "certcache_%dcallers_%dhosts" % (callers, hosts)
    return r


def run(num, depth, seed):
    cfg = vlib.cfg_text(dict(GHosts=set(TARGETS), BadTargets=set(BAD), Depth=depth + 1, Bursts={1, 2, 8}), spec="GenSpec", invariants=["PrintHist"])
    hists = vlib.tlc_simulate("CertCacheGen", cfg, num + 1, depth + 1, seed)[:num]
    # every third behaviour runs on an RSA-2048 CA (what the project's README has operators generate), the others on ECDSA P-256
    hists = [([{"a": "ca", "rsa": True}] if i % 3 == 1 else []) + h for i, h in enumerate(hists)]
    return replay(hists)


def replay(hists):
    binp = vlib.go_build("certdrv")
    d = vlib.scratch("cert-")
    try:
        targets = dict(TARGETS)
        targets.update(BAD)
        json.dump({"targets": targets, "behaviours": hists}, open(os.path.join(d, "in.json"), "w"))
        rc, out, err, _ = vlib.run_driver(binp, ["-in", "in.json", "-out", "trace.ndjson"], cwd=d, timeout=900)
        if rc != 0:
            raise vlib.Inconclusive("certdrv failed: %s" % err[-1500:])
        lines = [json.loads(x) for x in open(os.path.join(d, "trace.ndjson"))]
        tr = vlib.cfg_text(dict(TraceFile="trace.ndjson", Hosts=set(TARGETS)), spec="TraceSpec", postcondition="Report")
        r = vlib.tlc_validate("CertCacheTrace", tr, os.path.join(d, "trace.ndjson"))
        problems = []
        for b in r["allbad"]:
            ln = lines[b["line"] - 1]
            bi = ln.get("b")
            problems.append({"cats": b["cats"], "line": b["line"], "event": ln, "context": [x for x in lines[:b["line"]] if x.get("b") == bi][-5:],
                             "replay_input": {"behaviours": [hists[bi - 1]]}})
        if r["consumed"] < r["total"]:
            ln = lines[r["consumed"]]
            problems.append({"cats": ["struct"], "line": r["consumed"] + 1, "event": ln, "context": [], "replay_input": {"behaviours": [hists[ln.get("b", 1) - 1]]}})
        kinds = {}
        for ln in lines:
            k = "%s:%s:%s" % (ln.get("a"), ln.get("target", ""), ln.get("n", ""))
            kinds[k] = kinds.get(k, 0) + 1
        return {"behaviours": len(hists), "lines": len(lines), "consumed": r["consumed"], "problems": problems, "kinds": kinds,
                "sample": [x for x in lines if x.get("b") == 1][:10]}
    finally:
        shutil.rmtree(d, ignore_errors=True)


def bad_targets_run():
    """C16: every malformed CONNECT target (and a few odd well-formed ones) must be refused or served, never panic."""
    hists = [[{"a": "badtarget", "host": b, "n": 0}] for b in sorted(BAD)] + [[{"a": "get", "host": "h1", "n": 1}, {"a": "badtarget", "host": b, "n": 0}] for b in sorted(BAD)]
    r = replay(hists)
    panics = [p for p in r["problems"] if "malformed_target_panic" in p["cats"]]
    return {"cases": len(hists), "panics": len(panics), "detail": str([p["event"] for p in panics[:3]]), "sample": r["sample"][:4]}
