"""C19 Components follow the latest setting; unsubscribing is safe in any order (spec/EventBus.tla, ConfigCells.tla)."""
import json, time
import vlib, eventfam, cfgfam, janfam


def run(tier, seed):
    t0 = time.time()
    m = eventfam.mc(3, 3 if tier == "quick" else 4, coverage=(tier == "thorough"))
    if not m.get("complete"):
        raise vlib.Inconclusive("TLC did not complete EventBus: %s %s" % (m["violated"], m["out"][-800:]))
    neg = eventfam.negative_controls()
    n = 60 if tier == "quick" else 600
    runs = [eventfam.run("event", n, 12, seed), eventfam.run("prop", n, 12, seed + 1)]
    c = cfgfam.run(40 if tier == "quick" else 400, 6, seed + 2)
    viol, notes = [], []
    for r in runs:
        for p in r["problems"]:
            viol.append(vlib.save_replay("C19", "event-%s-%s-seed%d.json" % (r["target"], vlib.digest(p["replay_input"]), seed),
                                         {"kind": "eventdrv", "problem": {k: p[k] for k in ("cats", "line", "event", "context")}, "input": p["replay_input"]}))
    for p in c["problems"]:
        if "C19" in p["cats"]:
            viol.append(vlib.save_replay("C19", "cfg-%s-seed%d.json" % (vlib.digest(p["replay_input"]), seed),
                                         {"kind": "cfgdrv", "problem": {k: p[k] for k in ("cats", "line", "event", "context")}, "input": p["replay_input"]}))
        else:
            notes.append("config replay: first mismatch of a behaviour concerns %s" % p["cats"])
    walk = eventfam.fire_walk_mc()
    st = eventfam.storm(300 if tier == "quick" else 3000)
    for p in st["problems"][:3]:
        viol.append(vlib.save_replay("C19", "storm-%s-seed%d.json" % (vlib.digest(p["event"]), seed), {"kind": "eventdrv-storm", "problem": p}))
    jp = janfam.check_part("C19", tier, seed + 3)
    viol += jp["violations"]
    notes += jp["notes"]
    kinds = {}
    for r in runs:
        for k, v in r["kinds"].items():
            kinds["%s:%s" % (r["target"], k)] = v
    cov = {"states": m.get("distinct"), "transitions": m.get("states"),
           "traces_validated_against_impl": sum(r["behaviours"] for r in runs) + c["behaviours"] + jp["traces"],
           "samples": [runs[0]["sample"]], "evaluations": sum(r["lines"] for r in runs) + c["lines"], "distinct_nontrivial": len(kinds) + len(c["kinds"]),
           "rule": "TLC explores all subscribe/unsubscribe/fire sequences over 3 listeners with every completion order of the asynchronous calls "
                   "(EventBus) and checks UnsubNeverPanics / ShutDownNotNotified / OthersKeepNotifications / FollowersHaveLatest; the two deviations of the "
                   "pinned tree are kept as negative controls that must violate them; generated schedules are replayed on the real utils/event.Event and "
                   "config.ConfigProp with gated listeners (the schedule decides the completion order) and on live components (cache limit, memory cap, "
                   "janitor interval, log level) through the API update path; TLC judges the recorded observations (EventBusTrace, ConfigCellsTrace). spec/EventFire.tla models Fire's unlocked walk over the listener array against concurrent unsubscribes (every listener that stays subscribed is reached exactly once; cutting the entry out in place is the negative control). Free-running rounds (40 fires concurrent with the unsubscription of every second of 24 listeners) are judged at quiescence by EventStormTrace (listeners that stayed subscribed have the last value, no value fired after an Unsubscribe returned reaches its listener, no panic). Back-to-back changes while a component is busy: spec/JanitorCtl.tla models the listener -> one-slot mailbox -> janitor hand-over (LatestGoverns, Settles; drop-when-full as negative control); every visible schedule of changes and hold/release of the janitor up to length 5/6 runs on the real cache and TLC judges the interval the janitor ends up on (JanitorCtlTrace).",
           "negative_controls": neg, "step_kinds": kinds, "storm_rounds": st["rounds"], "fire_walk_model": walk, "janitor_interval_protocol": jp["coverage"].get("janitor_interval_protocol"), "config_replay": {k: c[k] for k in ("behaviours", "lines", "kinds")}, "notes": notes[:10]}
    vlib.write_evidence("C19", tier, "model_checking", cov, time.time() - t0, len(viol),
                        ["cache-policy and retry switches are read live on every request (covered by the proxy replays under C03/C04/C07)"])
    return viol


def replay(path):
    art = json.load(open(path))
    if art.get("kind") == "eventdrv-storm":
        r = eventfam.storm(3000)
        return [path] if r["problems"] else []
    if art.get("kind") == "jandrv":
        return [path] if janfam.replay(art) else []
    if art.get("kind") == "cfgdrv":
        r = cfgfam.replay(art["input"]["behaviours"])
        return [path] if any("C19" in p["cats"] for p in r["problems"]) else []
    inp = art["input"]
    r = eventfam.replay(inp["target"], inp["behaviours"], inp.get("listeners", 3))
    for p in r["problems"]:
        print("replayed:", p["cats"], json.dumps(p["event"])[:400])
    return [path] if r["problems"] else []
