---------------------------- MODULE ByteSizeGen ----------------------------
EXTENDS ByteSize
VARIABLE dummy
ASSUME WriteCases
Spec == dummy = 0 /\ [][FALSE]_dummy
=============================================================================
