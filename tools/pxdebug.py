"""Debug helper: replay one saved proxy input (replay artefact or bare input JSON) and print the summarised trace."""
import sys, json, os
sys.path.insert(0, os.path.dirname(os.path.abspath(__file__)))
import proxyfam, vlib

def summ(d):
    dl = [{k: v for k, v in e.items() if k in ('c', 'status', 'bv', 'xcache', 'age', 'ttl', 'etag', 'lm', 'bodyOK', 'blen', 'off', 'total', 'trunc')} for e in d.get('deliv', [])]
    return "%3s %-10s c=%s r=%s %s %s st=%s ohits=%s opened=%s stored=%s new=%s wait=%s settled=%s %s" % (
        d.get('i'), d['a'], d.get('c'), d.get('r'), d.get('kind', ''), d.get('cond', ''), d.get('status', ''), d.get('ohits'),
        [(o['c'], o['method'], o['ims'], o['inm'], o['range']) for o in d.get('opened', [])], d.get('storedVer'), d.get('storedNew'),
        d.get('waiting'), d.get('settled'), dl)

if __name__ == "__main__":
    art = json.load(open(sys.argv[1]))
    inp = art.get("input", art)
    allf = proxyfam.all_families()
    f = next(x for x in allf if x["name"] == inp["family"])
    print(json.dumps(inp["config"]))
    for s in inp["behaviours"][0]:
        print("  step", {k: v for k, v in s.items() if v not in ("", 0, False)})
    binp = vlib.go_build("proxydrv")
    d = vlib.scratch("pxdebug-")
    json.dump(inp, open(os.path.join(d, "in.json"), "w"))
    rc, out, err, _ = vlib.run_driver(binp, ["-in", "in.json", "-out", "trace.ndjson"], cwd=d, timeout=600)
    for x in open(os.path.join(d, "trace.ndjson")):
        print(summ(json.loads(x)))
    r = proxyfam.replay_and_validate(f, inp["behaviours"], inp=inp)
    for p in r["problems"]:
        print("PROBLEM", p["props"], p["cats"], p["kind"], "line", p["line"])
    print("consumed", r["consumed"], "of", r["lines"])
