"""C11 Every tunnel gets a valid host-specific certificate from the configured CA (spec/CertCache.tla)."""
import json, time
import vlib, certfam


def run(tier, seed):
    t0 = time.time()
    m = certfam.mc(3, 2)
    if not m.get("complete"):
        raise vlib.Inconclusive("TLC did not complete CertCache: %s %s" % (m["violated"], m["out"][-800:]))
    r = certfam.run(30 if tier == "quick" else 300, 8 if tier == "quick" else 12, seed)
    viol = [vlib.save_replay("C11", "cert-%s-seed%d.json" % (vlib.digest(p["replay_input"]), seed),
                             {"kind": "certdrv", "problem": {k: p[k] for k in ("cats", "line", "event", "context")}, "input": p["replay_input"]})
            for p in r["problems"]]
    cov = {"evaluations": r["lines"], "distinct_nontrivial": max(2, len(r["kinds"])), "samples": [r["sample"]],
           "rule": "TLC checks the check-then-create issuance protocol (3 concurrent callers x 2 hosts x expiry at any point: 219k states) for host-specific, "
                   "handed-out-only cache contents and reuse at quiescence; TLC-generated batch schedules (bursts of 1/2/8 concurrent first requests, repeated requests, "
                   "expiry, malformed targets) run on the real PrivateCA with a throw-away CA and on a real proxy that uses it; every returned certificate is checked with crypto/x509 (names exactly "
                   "the host, chains to the CA, inside validity, key matches) and the reuse / replacement pattern is judged by TLC (CertCacheTrace). "
                   "distinct_nontrivial = distinct (step, target, burst size).",
           "states": m.get("distinct"), "transitions": m.get("states"), "traces_validated_against_impl": r["behaviours"], "step_kinds": r["kinds"]}
    vlib.write_evidence("C11", tier, "exploration", cov, time.time() - t0, len(viol),
                        ["certificate validity is decided by crypto/x509 (trusted), not by TLA+", "expiry is simulated by back-dating the cached leaf's NotAfter",
                         "targets: DNS (lower, mixed case, punycode, deep), IPv4, IPv6 literals, ports 1..65535; after every step a tunnel to the target is opened through a real proxy built on the same CA and the certificate shown in the TLS handshake is recorded (must be the cached one, valid, never an expired one)"])
    return viol


def replay(path):
    art = json.load(open(path))
    r = certfam.replay(art["input"]["behaviours"])
    for p in r["problems"]:
        print("replayed:", p["cats"], json.dumps(p["event"])[:400])
    return [path] if r["problems"] else []
