----------------------------- MODULE SessionsGen -----------------------------
EXTENDS Sessions, Json
CONSTANTS Depth, NRoutes
VARIABLE hist
Log(r) == hist' = Append(hist, r)
GenInit == Init /\ hist = <<>>
GenNext ==
    \/ \E k \in Kinds, c \in Cookies, o \in Origins, s \in Sites, pw \in Passwords, np \in Passwords, rt \in 1..NRoutes :
          /\ ~Ambiguous(o, s)
          \* (bias: start with a successful login; only cookies that have been issued, junk or none)
          /\ (Len(hist) = 0) => (k = "login" /\ pw = pwd /\ c = "none" /\ o = "none" /\ s = "absent")
          /\ (Handle(c) # 0) => st[Handle(c)] # "unused"
          /\ (k # "get") => rt = 1
          /\ (k \notin {"login", "chpw"}) => pw = "p0"
          /\ (k # "chpw") => np = "p0"
          /\ Request(k, c, o, s, pw, np, k # "login")
          /\ Log([a |-> "req", kind |-> k, cookie |-> c, origin |-> o, site |-> s, pw |-> pw, newpw |-> np, rt |-> rt, i |-> 0])
    \/ \E i \in S : Expire(i) /\ Log([a |-> "expire", kind |-> "", cookie |-> "", origin |-> "", site |-> "", pw |-> "", newpw |-> "", rt |-> 0, i |-> i])
GenSpec == GenInit /\ [][GenNext]_<<vars, hist>>
PrintHist == (TLCGet("level") # Depth) \/ PrintT(<<"HIST", ToJson(hist)>>)
=============================================================================
