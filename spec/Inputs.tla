------------------------------- MODULE Inputs -------------------------------
(***************************************************************************)
(* Small grammars for C16 ("no input makes a parser panic"): bounded-       *)
(* exhaustive token sequences for Cache-Control / Expires header sets and   *)
(* for stored password-hash (PHC) strings.  The only outcome excluded is a  *)
(* panic; for PHC strings the well-formed ones must also be accepted.       *)
(***************************************************************************)
EXTENDS Integers, Sequences, FiniteSets, TLC, Json, IOUtils, SequencesExt

CONSTANTS CCToks, CCMaxLen, ExpForms, PhcFields, CaseFile, ResultFile, Mode

RECURSIVE SeqsUpTo(_, _)
SeqsUpTo(T, n) == IF n = 0 THEN {<<>>} ELSE LET S == SeqsUpTo(T, n - 1) IN S \cup {Append(s, t) : s \in {x \in S : Len(x) = n - 1}, t \in T}

\* one or two Cache-Control lines, optionally an Expires line
CCLines == SeqsUpTo(CCToks, CCMaxLen)
CCCases == {[lines |-> <<l1>>, expires |-> e] : l1 \in CCLines, e \in ExpForms}
           \cup {[lines |-> <<l1, l2>>, expires |-> <<>>] : l1 \in SeqsUpTo(CCToks, 2), l2 \in SeqsUpTo(CCToks, 2)}
CCSeq == SetToSeq(CCCases)

\* PHC strings: five "$"-separated fields, with field-count and content variants
F == PhcFields
PhcCases == {<<lead, id, "$", ver, "$", par, "$", salt, "$", hash>> :
                lead \in {"EMPTY", "$"}, id \in F.id, ver \in F.ver, par \in F.par, salt \in F.salt, hash \in F.hash}
            \cup {<<"$", "argon2id", "$", "v=19">>, <<"$">>, <<>>, <<"$", "$", "$", "$", "$">>,
                  <<"$", "argon2id", "$", "v=19", "$", "m=65536,t=1,p=2,l=32", "$", "SALT16", "$", "HASH32", "$", "x">>}
PhcSeq == SetToSeq(PhcCases)
PhcValid(c) == Len(c) = 10 /\ c[2] = "argon2id" /\ c[4] = "v=19" /\ c[6] \in {"m=65536,t=1,p=2,l=32", "m=65536,t=1,p=2"}
               /\ c[8] = "SALT16" /\ c[10] = "HASH32"

WriteCases ==
    IF Mode = "cc"
    THEN ndJsonSerialize(CaseFile, [i \in 1..Len(CCSeq) |-> [id |-> i, lines |-> CCSeq[i].lines, expires |-> CCSeq[i].expires]])
    ELSE ndJsonSerialize(CaseFile, [i \in 1..Len(PhcSeq) |-> [id |-> i, s |-> PhcSeq[i], valid |-> PhcValid(PhcSeq[i])]])

Results == ndJsonDeserialize(ResultFile)
CasesIn == ndJsonDeserialize(CaseFile)
Panics == {i \in 1..Len(Results) : Results[i].res = "panic"}
Refused == IF Mode = "phc" THEN {i \in 1..Len(Results) : CasesIn[i].valid /\ Results[i].res # "ok"} ELSE {}
Accepted == IF Mode = "phc" THEN {i \in 1..Len(Results) : ~CasesIn[i].valid /\ Results[i].res = "ok"} ELSE {}
FirstN(S, n) == {i \in S : Cardinality({j \in S : j < i}) < n}
Judge == PrintT(<<"INPUT-RESULT", Len(Results), Cardinality(Panics), Cardinality(Refused), Cardinality(Accepted),
                  {CasesIn[i] : i \in FirstN(Panics, 6)}, {CasesIn[i] : i \in FirstN(Refused, 3)}>>)
=============================================================================
