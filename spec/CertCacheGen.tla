---------------------------- MODULE CertCacheGen ----------------------------
(* Batch-level schedules for the real PrivateCA: bursts of n concurrent requests for a host, expiry *)
(* of the cached certificate, malformed targets.                                                    *)
EXTENDS Integers, Sequences, FiniteSets, TLC, Json
CONSTANTS GHosts, BadTargets, Depth, Bursts
VARIABLES hist, issued
GenInit == hist = <<>> /\ issued = {}
\* an expiry is followed at once by requests for that host (otherwise a random walk over 8 hosts rarely returns to it)
JustExpired == hist # <<>> /\ hist[Len(hist)].a = "expire"
GenNext ==
    \/ \E h \in GHosts, n \in Bursts : /\ JustExpired => h = hist[Len(hist)].host
                                       /\ hist' = Append(hist, [a |-> "get", host |-> h, n |-> n]) /\ issued' = issued \cup {h}
    \/ \E h \in issued, k \in 1..6 : ~JustExpired /\ hist' = Append(hist, [a |-> "expire", host |-> h, n |-> 0]) /\ UNCHANGED issued
    \/ \E t \in BadTargets : ~JustExpired /\ Len(hist) < 3 /\ hist' = Append(hist, [a |-> "badtarget", host |-> t, n |-> 0]) /\ UNCHANGED issued
GenSpec == GenInit /\ [][GenNext]_<<hist, issued>>
PrintHist == (TLCGet("level") # Depth) \/ PrintT(<<"HIST", ToJson(hist)>>)
=============================================================================
