---------------------------- MODULE ByteSizeJudge ----------------------------
EXTENDS ByteSize
VARIABLE dummy
ASSUME Judge
Spec == dummy = 0 /\ [][FALSE]_dummy
=============================================================================
