"""C20 Dashboard API needs a live session obtained with the right password (spec/Sessions.tla)."""
import json, time
import vlib, sessfam


def run(tier, seed):
    t0 = time.time()
    m = sessfam.mc(2, 4 if tier == "quick" else 5)
    if not m.get("complete"):
        raise vlib.Inconclusive("TLC did not complete Sessions: %s %s" % (m["violated"], m["out"][-800:]))
    r = sessfam.run(60 if tier == "quick" else 600, 10 if tier == "quick" else 14, seed)
    viol = []
    for p in r["problems"]:
        viol.append(vlib.save_replay("C20", "sess-%s-seed%d.json" % (vlib.digest(p["replay_input"]), seed),
                                     {"kind": "sessdrv", "problem": {k: p[k] for k in ("cats", "line", "event", "context")}, "input": p["replay_input"]}))
    # every registered route must have been exercised (the SSE stream is exempt: it does not return)
    reg = {"%s %s" % (e["Method"], e["Path"]) for e in (r["routes_registered"] or [])}
    missing = sorted(x for x in reg - set(r["routes_exercised"]) if not x.endswith("/log/stream"))
    if missing and tier == "thorough":
        raise vlib.Inconclusive("routes never exercised: %s" % missing)
    cov = {"states": m.get("distinct"), "transitions": m.get("states"), "traces_validated_against_impl": r["behaviours"],
           "samples": [r["sample"]], "evaluations": r["lines"], "distinct_nontrivial": len(r["kinds"]),
           "rule": "TLC explores login/logout/expiry/request histories (cookie classes none/junk/issued handles, Origin x Sec-Fetch-Site classes, right and wrong "
                   "passwords) and checks NoSessionNoEffect / ExpiredStaysExpired; generated histories are replayed on the real mux behind the Harden middleware with the "
                   "real session table and user database; status class, effects (new session, logout, password row, config) and the liveness of every issued session "
                   "after every step are judged by TLC (SessionsTrace). distinct_nontrivial = distinct (kind, status, cookie class) triples.",
           "routes_registered": sorted(reg), "routes_exercised": r["routes_exercised"], "routes_not_exercised": missing, "step_kinds": r["kinds"]}
    vlib.write_evidence("C20", tier, "model_checking", cov, time.time() - t0, len(viol),
                        ["every route except login is required to need a session (the model does not read the RequiresAuth flags)",
                         "expiry margins 1 ns, 5 min, 1 h, 100 h by moving the session's expiry; the 15-minute GC is not exercised",
                         "GET /api/log/stream (SSE) is not driven; the CSP constant is supplied by a build overlay"])
    return viol


def replay(path):
    art = json.load(open(path))
    r = sessfam.replay(art["input"]["behaviours"])
    for p in r["problems"]:
        print("replayed:", p["cats"], json.dumps(p["event"])[:500])
    return [path] if r["problems"] else []
