"""Common runner for the properties decided on spec/CacheStore.tla (C01, C12, C13, C14)."""
import json, os, time
import vlib, cachefam


def run_cache_property(prop, tier, seed, mcs, fams, nquick, nthorough, level, rule, assumptions, extra_cov=None,
                       extra_runs=None, traps=None):
    t0 = time.time()
    vlib.go_build("cachedrv")  # once, before the parallel replays (rebuilt from /repo's working tree)
    viol = []
    notes = []
    states = transitions = 0
    mcres = []
    for m in mcs(tier):
        r = m()
        if not r.get("complete"):
            if r["violated"]:
                # a counterexample on the MODEL is not a verdict about the code
                raise vlib.Inconclusive("TLC reports %s violated on the model (%s); trace: %s" %
                                        (r["violated"], r["name"], r.get("trace_actions")))
            raise vlib.Inconclusive("TLC did not complete %s (rc=%s): %s" % (r["name"], r["rc"], r["out"][-1500:]))
        states += r.get("distinct", 0)
        transitions += r.get("states", 0)
        mcres.append({"config": r["name"], "distinct_states": r.get("distinct"), "states_generated": r.get("states"),
                      "depth": r.get("depth"), "wall_s": round(r["wall"], 1), "constants": r["constants"],
                      "actions_never_taken": sorted(a for a, n in (r.get("actions") or {}).items() if n == 0)})
    n = nquick if tier == "quick" else nthorough
    traces = lines = 0
    famres = []
    sample = None
    kinds = {}
    seen_beh = set()
    from concurrent.futures import ThreadPoolExecutor
    flist = list(fams(tier))
    with ThreadPoolExecutor(max_workers=6) as ex:
        results = list(ex.map(lambda t: cachefam.run_family(t[1], n, seed * 1000 + t[0]), enumerate(flist)))
    for f, r in zip(flist, results):
        traces += r["behaviours"]
        lines += r["consumed"]
        for k, v in r["kinds"].items():
            kinds[k] = kinds.get(k, 0) + v
        if sample is None:
            sample = r["sample"]
        famres.append({k: r[k] for k in ("family", "behaviours", "lines", "consumed", "driver_s", "tlc_s")})
        for p in r["problems"]:
            if prop in p["props"]:
                if not confirmed(f, p, prop):
                    notes.append("family %s: a mismatch at line %d (%s) did not reproduce when its behaviour was replayed alone; not counted" %
                                 (f["name"], p["line"], ",".join(p["cats"])))
                    continue
                path = vlib.save_replay(prop, "%s-%s-seed%d.json" % (f["name"], vlib.digest(p["replay_input"]), seed),
                                        {"kind": "cachedrv", "problem": {k: p.get(k) for k in ("props", "cats", "line", "event", "context", "model", "goroutines")},
                                         "input": p["replay_input"]})
                viol.append(path)
            else:
                notes.append("family %s: first mismatch at line %d concerns %s (%s), not %s; lines after it were not judged" %
                             (f["name"], p["line"], ",".join(p["props"]), ",".join(p["cats"]), prop))
                if os.environ.get("VERIF_KEEP_NOTES"):
                    vlib.save_replay("_notes", "%s-%s-%s.json" % (prop, f["name"], vlib.digest(p["replay_input"])),
                                     {"kind": "cachedrv", "problem": {k: p.get(k) for k in ("props", "cats", "line", "event", "context", "model")},
                                      "input": p["replay_input"]})
    trapres = []
    if traps is None:
        import importlib
        traps = getattr(importlib.import_module("props." + prop), "traps", None)
    tlist = list(traps(tier) if traps else [])
    with ThreadPoolExecutor(max_workers=3) as ex:
        tresults = list(ex.map(lambda tf: cachefam.run_traps(tf, 8 if tier == "quick" else 60, seed,
                                                             timeout=25 if tier == "quick" else 400, workers=5), tlist))
    for tf, r in zip(tlist, tresults):
        traces += r["behaviours"]
        lines += r["consumed"]
        for k, v in r["kinds"].items():
            kinds[k] = kinds.get(k, 0) + v
        trapres.append({"family": tf["name"], "behaviours": r["behaviours"], "windows_reached": r["traps_hit"],
                        "lines": r["lines"], "consumed": r["consumed"]})
        for p in r["problems"]:
            if prop in p["props"]:
                if not confirmed(tf, p, prop):
                    notes.append("trap family %s: a mismatch at line %d (%s) did not reproduce when replayed alone; not counted" %
                                 (tf["name"], p["line"], ",".join(p["cats"])))
                    continue
                path = vlib.save_replay(prop, "%s-%s-seed%d.json" % (tf["name"], vlib.digest(p["replay_input"]), seed),
                                        {"kind": "cachedrv", "problem": {k: p.get(k) for k in ("props", "cats", "line", "event", "context", "model", "goroutines")},
                                         "input": p["replay_input"]})
                viol.append(path)
            else:
                notes.append("trap family %s: first mismatch at line %d concerns %s (%s), not %s" %
                             (tf["name"], p["line"], ",".join(p["props"]), ",".join(p["cats"]), prop))
    for x in (extra_runs or []):
        xr = x(tier, seed)
        viol += xr.get("violations", [])
        notes += xr.get("notes", [])
        if extra_cov is None:
            extra_cov = {}
        extra_cov.update(xr.get("coverage", {}))
        traces += xr.get("traces", 0)
    nontrivial = sum(v for k, v in kinds.items() if k.split(":")[1] not in ("busy", "nostore", "nohandle", "nocycle", "unknown", ""))
    cov = {"states": max(states, 1), "transitions": max(transitions, 1), "traces_validated_against_impl": traces,
           "samples": [sample] if sample else [mcres[:1]],
           "evaluations": lines, "distinct_nontrivial": len(kinds),
           "rule": rule, "model_checking": mcres, "replay_families": famres, "targeted_families": trapres, "trace_line_kinds": kinds,
           "effective_steps": nontrivial, "notes": notes}
    if extra_cov:
        cov.update(extra_cov)
    for nline in notes:
        print("NOTE " + nline)
    vlib.write_evidence(prop, tier, level, cov, time.time() - t0, len(viol), assumptions)
    return viol


def confirmed(fam, p, prop):
    """A mismatch counts only if the same behaviour, replayed alone, shows a mismatch for the property again
    (at least once in two tries): a one-off is a scheduling artefact of the harness, not a verdict."""
    for _ in range(2):
        try:
            r = cachefam.replay_and_validate(fam, p["replay_input"]["behaviours"], inp=dict(p["replay_input"]))
        except vlib.Inconclusive:
            continue
        if any(prop in q["props"] for q in r["problems"]):
            return True
    return False


def replay_file(prop, path):
    """Re-run a saved violating behaviour."""
    art = json.load(open(path))
    inp = art["input"]
    fam = None
    import props.C01 as c01, props.C12 as c12, props.C13 as c13, props.C14 as c14
    for mod in (c01, c12, c13, c14):
        for f in mod.fams("thorough") + cachefam.trap_families("memory") + cachefam.trap_families("file"):
            if f["name"] == inp.get("family"):
                fam = f
    if fam is None:
        raise vlib.Inconclusive("unknown family in replay artifact: %s" % inp.get("family"))
    r = cachefam.replay_and_validate(fam, inp["behaviours"], inp=inp)
    out = []
    for p in r["problems"]:
        print("replayed: mismatch at line %d cats=%s props=%s event=%s\n model: %s" % (p["line"], p["cats"], p["props"], json.dumps(p["event"])[:400], p.get("model")))
        if prop in p["props"]:
            out.append(path)
    if not r["problems"]:
        print("replayed: trace accepted (%d lines)" % r["consumed"])
    return out
