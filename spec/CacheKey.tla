------------------------------ MODULE CacheKey ------------------------------
(***************************************************************************)
(* Reference identity of a proxied resource for C02.                       *)
(* A request target is (method, host, path segments, trailing slash,       *)
(* query).  Path segments are tokens: "a" "b" are names, "." ".." "" (an   *)
(* empty segment = a duplicate slash) are what normalisation removes,      *)
(* "a|b" contains the character the pinned key function joins its fields   *)
(* with, "a%7Cb" is its percent-encoded spelling; "a%3Fb" is a name that   *)
(* contains an encoded "?" (so "/a%3Fb" and "/a?b" differ by a character   *)
(* moved across the path/query boundary).                                  *)
(*                                                                         *)
(* Strict(req): the identity under which requests MUST share an entry      *)
(*   (same method, host compared case-insensitively, same path up to       *)
(*   dot-segments and duplicate slashes -- trailing slash kept --, same    *)
(*   raw query).                                                           *)
(* Loose(req): as Strict but with percent-encoding decoded; requests with  *)
(*   different Loose identities MUST NOT share an entry.  Requests whose   *)
(*   Strict identities differ but whose Loose identities agree differ only *)
(*   in percent-encoding: the property is silent, either is accepted.      *)
(***************************************************************************)
EXTENDS Integers, Sequences, FiniteSets, TLC, Json, IOUtils, SequencesExt

CONSTANTS Methods, Hosts, Segs, LastSegs, Queries, MaxSegs, CaseFile, ResultFile, E2EFile

Lower(h) == CASE h = "H.EXAMPLE" -> "h.example" [] h = "Other.Example" -> "other.example" [] OTHER -> h
Decode(s) == CASE s = "a%7Cb" -> "a|b" [] s = "%61" -> "a" [] s = "a%3Fb" -> "a?b" [] OTHER -> s

RECURSIVE Norm(_, _)
\* remove dot segments and empty segments (duplicate slashes) from a segment sequence
Norm(segs, acc) ==
    IF segs = <<>> THEN acc
    ELSE LET s == Head(segs) IN
         IF s = "." \/ s = "" THEN Norm(Tail(segs), acc)
         ELSE IF s = ".." THEN Norm(Tail(segs), IF acc = <<>> THEN acc ELSE SubSeq(acc, 1, Len(acc) - 1))
         ELSE Norm(Tail(segs), Append(acc, s))

Strict(c) == <<c.method, Lower(c.host), Norm(c.segs, <<>>), c.slash, c.query>>
Loose(c)  == <<c.method, Lower(c.host), [i \in 1..Len(Norm(c.segs, <<>>)) |-> Decode(Norm(c.segs, <<>>)[i])], c.slash, c.query>>

RECURSIVE Join(_)
Join(segs) == IF segs = <<>> THEN "" ELSE "/" \o Head(segs) \o Join(Tail(segs))
Target(c) == (IF c.segs = <<>> THEN "/" ELSE Join(c.segs)) \o (IF c.slash /\ c.segs # <<>> THEN "/" ELSE "")
             \o (IF c.query = "NONE" THEN "" ELSE "?" \o c.query)

RECURSIVE SegSeqs(_)
SegSeqs(n) == IF n = 0 THEN {<<>>} ELSE LET S == SegSeqs(n - 1) IN S \cup {Append(s, t) : s \in {x \in S : Len(x) = n - 1}, t \in Segs}
\* the last segment is a plain name (a trailing "." / ".." / "" is covered by the slash flag)
Paths == {<<>>} \cup {Append(p, l) : p \in SegSeqs(MaxSegs - 1), l \in LastSegs}

Cases == {[method |-> m, host |-> h, segs |-> p, slash |-> sl, query |-> q] :
              m \in Methods, h \in Hosts, p \in Paths, sl \in BOOLEAN, q \in Queries}
CaseSeq == SetToSeq({c \in Cases : ~(c.segs = <<>> /\ c.slash)})
WriteCases == ndJsonSerialize(CaseFile, [i \in 1..Len(CaseSeq) |->
                  [id |-> i, method |-> CaseSeq[i].method, host |-> CaseSeq[i].host, target |-> Target(CaseSeq[i]),
                   strict |-> ToString(Strict(CaseSeq[i])), loose |-> ToString(Loose(CaseSeq[i]))]])

-----------------------------------------------------------------------------
\* results: [id, hex]; the case file is read back for the identities
CasesIn == ndJsonDeserialize(CaseFile)
Results == ndJsonDeserialize(ResultFile)
N == Len(Results)
HexOf(i) == Results[i].hex
Hexes == {HexOf(i) : i \in 1..N}
Stricts == {CasesIn[i].strict : i \in 1..N}
\* no entry is shared by requests that must differ
Collisions == {h \in Hexes : Cardinality({CasesIn[i].loose : i \in {j \in 1..N : HexOf(j) = h}}) > 1}
\* requests that must share do share
Splits == {s \in Stricts : Cardinality({HexOf(i) : i \in {j \in 1..N : CasesIn[j].strict = s}}) > 1}
Example(h) == {CasesIn[i].target \o " @" \o CasesIn[i].host \o " " \o CasesIn[i].method : i \in {j \in 1..N : HexOf(j) = h}}
ExampleS(s) == {CasesIn[i].target \o " @" \o CasesIn[i].host : i \in {j \in 1..N : CasesIn[j].strict = s}}
Judge == PrintT(<<"KEY-RESULT", N, Cardinality(Hexes), Cardinality(Collisions), Cardinality(Splits),
                  IF Collisions = {} THEN {} ELSE Example(CHOOSE h \in Collisions : TRUE),
                  IF Splits = {} THEN {} ELSE ExampleS(CHOOSE s \in Splits : TRUE),
                  Cardinality({i \in 1..N : HexOf(i) \in {"unparsed"}}) >>)
-----------------------------------------------------------------------------
(* end to end: every target went through the proxy twice; the origin's answers name the case whose request     *)
(* reached it.  [id, s1, e1, s2, e2, x2] per case; E2EFile.summary holds the number of GET requests the origin *)
(* saw during the first pass.                                                                                  *)
EResults == ndJsonDeserialize(E2EFile)
ESummary == ndJsonDeserialize(E2EFile \o ".summary")[1]
EN == Len(EResults)
ECase(i) == CasesIn[EResults[i].id]
\* answered, and with the answer to a request of the same identity (never somebody else's entry)
EWrong == {i \in 1..EN : LET r == EResults[i] IN
              \/ r.s1 # 200 \/ r.s2 # 200 \/ r.e1 = 0 \/ r.e2 = 0
              \/ CasesIn[r.e1].loose # ECase(i).loose \/ CasesIn[r.e2].loose # ECase(i).loose
              \* third pass: over one CONNECT tunnel; the request's own Host header names the resource
              \/ ("e3" \in DOMAIN r /\ (r.s3 # 200 \/ r.e3 = 0 \/ CasesIn[r.e3].loose # ECase(i).loose))}
\* every identity was fetched exactly once: a GET identity split over two entries costs a second fetch
GetIdentities == {ECase(i).strict : i \in {j \in 1..EN : ECase(j).method = "GET"}}
EJudge == PrintT(<<"KEY-E2E-RESULT", EN, Cardinality(EWrong), ESummary.getContactsFirstPass, Cardinality(GetIdentities),
                   IF EWrong = {} THEN <<>> ELSE LET i == CHOOSE x \in EWrong : \A y \in EWrong : x <= y
                                                 IN <<ECase(i).target, ECase(i).host, EResults[i],
                                                      IF EResults[i].e2 > 0 THEN CasesIn[EResults[i].e2].target ELSE "">> >>)
=============================================================================
