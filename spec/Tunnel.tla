------------------------------- MODULE Tunnel -------------------------------
(***************************************************************************)
(* Exchanges multiplexed over one kept-alive CONNECT tunnel (C10).         *)
(* proxy.go handleCONNECT reads requests from the tunnel in a loop and     *)
(* answers each through a responder object that writes raw HTTP/1.1.  The  *)
(* responder owns the response under construction: status, header map,     *)
(* Content-Length.  The specification keeps that object explicit:          *)
(*   resp     the responder's header map (field name -> value) as it is    *)
(*            when an exchange begins                                      *)
(*   store    resources the cache holds                                    *)
(*   out      ghost: what the last exchange put on the wire                *)
(* An exchange of kind k builds its response by setting the headers that   *)
(* belong to k (origin / stored headers, Content-Range for a slice, the    *)
(* error headers of a proxy-made refusal) on top of resp, derives the      *)
(* framing (Content-Length or chunked) from the map, and writes it.        *)
(* FreshResponder = TRUE: resp is empty at every exchange (what isolation  *)
(* needs); FALSE is the named deviation of the pinned code (one responder  *)
(* for the whole tunnel), kept as a negative control.                      *)
(***************************************************************************)
EXTENDS Integers, Sequences, FiniteSets, TLC

CONSTANTS Kinds, MaxLen, FreshResponder

\* resources and what the origin answers for them
Res == {"A", "B", "C", "D", "E", "F", "G"}
Def(r) == CASE r = "A" -> [status |-> 200, hdrs |-> {"content-type", "x-a", "cache-control"}, body |-> "sized", cl |-> TRUE, storable |-> TRUE]
            [] r = "B" -> [status |-> 200, hdrs |-> {"content-type", "x-b", "set-cookie"}, body |-> "chunked", cl |-> FALSE, storable |-> TRUE]
            [] r = "C" -> [status |-> 404, hdrs |-> {"x-err", "content-type"}, body |-> "sized", cl |-> TRUE, storable |-> FALSE]
            [] r = "D" -> [status |-> 201, hdrs |-> {"content-type", "location", "x-d"}, body |-> "sized", cl |-> TRUE, storable |-> FALSE]
            [] r = "E" -> [status |-> 200, hdrs |-> {"content-type", "x-e"}, body |-> "large", cl |-> TRUE, storable |-> TRUE]
            [] r = "F" -> [status |-> 200, hdrs |-> {"content-type", "x-f", "cache-control"}, body |-> "chunked", cl |-> FALSE, storable |-> FALSE]
            [] r = "G" -> [status |-> 204, hdrs |-> {"x-g"}, body |-> "empty", cl |-> FALSE, storable |-> FALSE]
\* exchange kinds
KDef(k) == CASE k = "get_a"   -> [res |-> "A", method |-> "GET", range |-> "none", rbody |-> "none", expect |-> FALSE]
             [] k = "get_b"   -> [res |-> "B", method |-> "GET", range |-> "none", rbody |-> "none", expect |-> FALSE]
             [] k = "get_c"   -> [res |-> "C", method |-> "GET", range |-> "none", rbody |-> "none", expect |-> FALSE]
             [] k = "post_d"  -> [res |-> "D", method |-> "POST", range |-> "none", rbody |-> "sized", expect |-> FALSE]
             [] k = "get_e"   -> [res |-> "E", method |-> "GET", range |-> "none", rbody |-> "none", expect |-> FALSE]
             [] k = "get_f"   -> [res |-> "F", method |-> "GET", range |-> "none", rbody |-> "none", expect |-> FALSE]
             [] k = "head_a"  -> [res |-> "A", method |-> "HEAD", range |-> "none", rbody |-> "none", expect |-> FALSE]
             [] k = "head_b"  -> [res |-> "B", method |-> "HEAD", range |-> "none", rbody |-> "none", expect |-> FALSE]
             [] k = "head_c"  -> [res |-> "C", method |-> "HEAD", range |-> "none", rbody |-> "none", expect |-> FALSE]
             [] k = "range_a" -> [res |-> "A", method |-> "GET", range |-> "ok", rbody |-> "none", expect |-> FALSE]
             [] k = "range_b" -> [res |-> "B", method |-> "GET", range |-> "ok", rbody |-> "none", expect |-> FALSE]
             [] k = "bad_a"   -> [res |-> "A", method |-> "GET", range |-> "bad", rbody |-> "none", expect |-> FALSE]
             \* a request body the proxy has no use for (GET answered from the store), a large upload, an answer without body
             [] k = "getbody_a" -> [res |-> "A", method |-> "GET", range |-> "none", rbody |-> "sized", expect |-> FALSE]
             [] k = "post_big" -> [res |-> "D", method |-> "POST", range |-> "none", rbody |-> "big", expect |-> FALSE]
             [] k = "get_g"   -> [res |-> "G", method |-> "GET", range |-> "none", rbody |-> "none", expect |-> FALSE]
             \* an upload announced with "Expect: 100-continue", answered without a length
             [] k = "post_expect_f" -> [res |-> "F", method |-> "POST", range |-> "none", rbody |-> "sized", expect |-> TRUE]
AllKinds == {"get_a", "get_b", "get_c", "post_d", "get_e", "get_f", "head_a", "head_b", "head_c", "range_a", "range_b", "bad_a",
             "getbody_a", "post_big", "get_g", "post_expect_f"}
Tracked == UNION {Def(r).hdrs : r \in Res} \cup {"content-range"}

VARIABLES store, resp, out, n
vars == <<store, resp, out, n>>

\* what exchange k alone puts on the wire (the reference: a function of the request and the store only).
\* The origin ignores Range (so range requests are served as slices of the stored full body, or refused).
Own(k) ==
    LET kd == KDef(k)
        d  == Def(kd.res)
        sliced == kd.range = "ok" /\ d.storable
        refused == kd.range = "bad" /\ d.storable
    IN [status |-> IF refused THEN 416 ELSE IF sliced THEN 206 ELSE d.status,
        names  |-> IF refused THEN {"content-range", "content-type"} ELSE d.hdrs \cup (IF sliced THEN {"content-range"} ELSE {}),
        body   |-> IF refused THEN "refusal" ELSE IF kd.method = "HEAD" THEN "empty" ELSE IF sliced THEN "slice" ELSE d.body,
        \* framing: a length is announced iff the exchange's own headers carry one
        sized  |-> refused \/ sliced \/ d.cl]

Init == store = {} /\ resp = {} /\ out = [status |-> 0, names |-> {}, body |-> "", sized |-> TRUE, k |-> ""] /\ n = 0

Exchange(k) ==
    /\ n < MaxLen
    /\ LET o == Own(k)
           base == IF FreshResponder THEN {} ELSE resp
           names == base \cup o.names
       IN /\ out' = [status |-> o.status, names |-> names, body |-> o.body,
                     \* the pinned responder decides the framing from whatever Content-Length the map holds
                     sized |-> o.sized \/ (~FreshResponder /\ "content-length" \in base), k |-> k]
          /\ resp' = names \cup (IF o.sized THEN {"content-length"} ELSE {})
    /\ store' = IF Def(KDef(k).res).storable /\ KDef(k).method = "GET" THEN store \cup {KDef(k).res} ELSE store
    /\ n' = n + 1
Next == \E k \in Kinds : Exchange(k)
Spec == Init /\ [][Next]_vars

\* C10: every response depends on its own request only
Isolated == out.k # "" => /\ out.names \cap Tracked = Own(out.k).names \cap Tracked
                           /\ out.status = Own(out.k).status /\ out.body = Own(out.k).body /\ out.sized = Own(out.k).sized
=============================================================================
