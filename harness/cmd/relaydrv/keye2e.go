package main

import (
	"bufio"
	"bytes"
	"encoding/json"
	"fmt"
	"io"
	"net"
	"net/http"
	"os"
	"strconv"
	"strings"
	"sync/atomic"
	"time"
)

// Cache key end to end (spec/CacheKey.tla): every enumerated request target is sent through the real proxy
// twice. The origin answers every GET with a storable response that names the case whose request reached it
// (X-Echo-Id), so each response tells whose stored entry was served. TLC judges: no response comes from a
// request with another identity, and the number of GET requests that reached the origin in the first pass
// equals the number of identities (each identity was fetched once and then shared).

type keyCaseIn struct {
	ID     int    `json:"id"`
	Method string `json:"method"`
	Host   string `json:"host"`
	Target string `json:"target"`
}

func runKeyE2E(dir, backend, in, out string) error {
	d := &driver{}
	d.open(dir, backend)
	defer d.close()
	var getContacts int64
	d.osrv.Config.Handler = http.HandlerFunc(func(w http.ResponseWriter, r *http.Request) {
		if r.Method == http.MethodGet {
			atomic.AddInt64(&getContacts, 1)
		}
		w.Header().Set("X-Echo-Id", r.Header.Get("X-Case-Id"))
		w.Header().Set("Cache-Control", "max-age=3600")
		w.Header().Set("Content-Type", "text/plain")
		w.Header().Set("Content-Length", "4")
		w.WriteHeader(200)
		if r.Method != http.MethodHead {
			io.WriteString(w, "body")
		}
	})
	_, port, _ := net.SplitHostPort(d.ohost)
	hostOf := map[string]string{"h.example": "localhost:" + port, "H.EXAMPLE": "LOCALHOST:" + port, "other.example": "127.0.0.1:" + port,
		"Other.Example": "127.0.0.1:" + port}
	var cases []keyCaseIn
	fh, err := os.Open(in)
	if err != nil {
		return err
	}
	sc := bufio.NewScanner(fh)
	sc.Buffer(make([]byte, 1<<20), 1<<24)
	for sc.Scan() {
		var c keyCaseIn
		if err := json.Unmarshal(sc.Bytes(), &c); err != nil {
			fh.Close()
			return err
		}
		cases = append(cases, c)
	}
	fh.Close()
	var conn net.Conn
	var br *bufio.Reader
	do := func(c keyCaseIn) (int, string, string, error) {
		for attempt := 0; attempt < 2; attempt++ {
			if conn == nil {
				cc, err := net.DialTimeout("tcp", d.phost, 3*time.Second)
				if err != nil {
					return 0, "", "", err
				}
				conn, br = cc, bufio.NewReader(cc)
			}
			var b bytes.Buffer
			h := hostOf[c.Host]
			fmt.Fprintf(&b, "%s http://%s%s HTTP/1.1\r\nHost: %s\r\nX-Case-Id: %d\r\n\r\n", c.Method, h, c.Target, h, c.ID)
			conn.SetDeadline(time.Now().Add(5 * time.Second))
			if _, err := conn.Write(b.Bytes()); err != nil {
				conn.Close()
				conn = nil
				continue
			}
			resp, err := http.ReadResponse(br, &http.Request{Method: c.Method})
			if err != nil {
				conn.Close()
				conn = nil
				if attempt == 0 && err == io.EOF {
					continue
				}
				return 0, "", "", err
			}
			_, err = io.ReadAll(resp.Body)
			if err != nil || resp.Close {
				conn.Close()
				conn = nil
			}
			return resp.StatusCode, resp.Header.Get("X-Echo-Id"), resp.Header.Get("X-Cache"), err
		}
		return 0, "", "", fmt.Errorf("could not send")
	}
	type obs struct {
		status int
		echo   int
		xc     string
	}
	pass := func() []obs {
		o := make([]obs, len(cases))
		for i, c := range cases {
			st, e, xc, err := do(c)
			if err != nil {
				st = 0
			}
			id, _ := strconv.Atoi(e)
			o[i] = obs{st, id, xc}
		}
		return o
	}
	p1 := pass()
	contacts1 := atomic.LoadInt64(&getContacts)
	p2 := pass()
	// third pass: the same requests in origin form over ONE CONNECT tunnel (opened to the first host spelling); the resource
	// is named by each request's own Host header, not by the tunnel's authority
	var tconn net.Conn
	var tbr *bufio.Reader
	doTunnel := func(c keyCaseIn) (int, string, error) {
		for attempt := 0; attempt < 2; attempt++ {
			if tconn == nil {
				cc, r, err := d.openTunnelTo(hostOf["h.example"])
				if err != nil {
					return 0, "", err
				}
				tconn, tbr = cc, r
			}
			var b bytes.Buffer
			fmt.Fprintf(&b, "%s %s HTTP/1.1\r\nHost: %s\r\nX-Case-Id: %d\r\n\r\n", c.Method, c.Target, hostOf[c.Host], c.ID)
			tconn.SetDeadline(time.Now().Add(5 * time.Second))
			if _, err := tconn.Write(b.Bytes()); err != nil {
				tconn.Close()
				tconn = nil
				continue
			}
			resp, err := http.ReadResponse(tbr, &http.Request{Method: c.Method})
			if err != nil {
				tconn.Close()
				tconn = nil
				if attempt == 0 {
					continue
				}
				return 0, "", err
			}
			_, err = io.ReadAll(resp.Body)
			if err != nil || resp.Close {
				tconn.Close()
				tconn = nil
			}
			return resp.StatusCode, resp.Header.Get("X-Echo-Id"), err
		}
		return 0, "", fmt.Errorf("could not send")
	}
	p3 := make([]obs, len(cases))
	for i, c := range cases {
		st, e, err := doTunnel(c)
		if err != nil {
			st = 0
		}
		id, _ := strconv.Atoi(e)
		p3[i] = obs{st, id, ""}
	}
	of, err := os.Create(out)
	if err != nil {
		return err
	}
	defer of.Close()
	w := bufio.NewWriterSize(of, 1<<20)
	defer w.Flush()
	enc := json.NewEncoder(w)
	for i, c := range cases {
		enc.Encode(map[string]any{"id": c.ID, "s1": p1[i].status, "e1": p1[i].echo, "s2": p2[i].status, "e2": p2[i].echo, "x2": strings.ToUpper(p2[i].xc),
			"s3": p3[i].status, "e3": p3[i].echo})
	}
	sf, err := os.Create(out + ".summary")
	if err != nil {
		return err
	}
	defer sf.Close()
	json.NewEncoder(sf).Encode(map[string]any{"getContactsFirstPass": contacts1, "getContactsBothPasses": atomic.LoadInt64(&getContacts), "cases": len(cases)})
	return nil
}
