"""C02 Distinct resources never share a cache entry (spec/CacheKey.tla)."""
import time
import vlib, inputfam
from props.inputcommon import finish


def run(tier, seed):
    t0 = time.time()
    r = inputfam.key_run(3, wide=(tier == "thorough"))  # (4 segments: 150k targets, the partition judge is quadratic)
    bad = r["collisions"] + r["splits"]
    parts = [dict(name="cache_key_partition", evaluations=r["cases"], distinct=r["hexes"], bad=bad, detail=r["detail"], sample=r["sample"])]
    return finish("C02", tier, t0, parts,
                  "TLC enumerates request targets (2 (3) methods x 3 (4) host spellings x paths of <=3 segments over {a,b,.,..,'',a|b,a%7Cb,a%3Fb} x trailing slash x 5 queries), "
                  "renders the wire form and computes the Strict and Loose identities; the Go driver parses each wire request with http.ReadRequest and computes "
                  "cache.MakeFromRequest; TLC judges the partition: no key shared by different Loose identities, one key per Strict identity. "
                  "distinct_nontrivial = distinct keys produced.",
                  ["percent-encoded spellings of the same decoded path and '' vs '/' are accepted either way", "host:port variants are not part of the language"])


def replay(path):
    print(open(path).read()[:2000])
    return run("quick", vlib.seed())
