"""C02 Distinct resources never share a cache entry (spec/CacheKey.tla)."""
import time
import vlib, inputfam
from props.inputcommon import finish


def run(tier, seed):
    t0 = time.time()
    r = inputfam.key_run(3, wide=(tier == "thorough"))  # (4 segments: 150k targets, the partition judge is quadratic)
    bad = r["collisions"] + r["splits"]
    parts = [dict(name="cache_key_partition", evaluations=r["cases"], distinct=r["hexes"], bad=bad, detail=r["detail"], sample=r["sample"])]
    e = r.get("e2e")
    if e:
        # more GETs at the origin than identities: some identity was split over two entries
        ebad = e["wrong"] + (1 if e["origin_gets_first_pass"] > e["get_identities"] else 0)
        parts.append(dict(name="cache_key_end_to_end", evaluations=2 * e["cases"], distinct=e["get_identities"], bad=ebad,
                          detail="wrong=%d origin_gets_first_pass=%d identities=%d first: %s" % (e["wrong"], e["origin_gets_first_pass"], e["get_identities"], e["detail"]),
                          sample=[e]))
    return finish("C02", tier, t0, parts,
                  "TLC enumerates request targets (2 (3) methods x 3 (4) host spellings x paths of <=3 segments over {a,b,.,..,'',a|b,a%7Cb,a%3Fb, a 261-character name} x trailing slash x 7 queries), "
                  "renders the wire form and computes the Strict and Loose identities; the Go driver parses each wire request with http.ReadRequest and computes "
                  "cache.MakeFromRequest; TLC judges the partition: no key shared by different Loose identities, one key per Strict identity. "
                  "End to end: the same targets are sent twice through the real proxy on a raw socket (host spellings mapped to localhost / LOCALHOST / 127.0.0.1); "
                  "the origin's storable answers name the case whose request reached it, so TLC sees whose entry every response came from: never one of "
                  "another Loose identity, and no more origin GETs in the first pass than there are Strict identities. "
                  "distinct_nontrivial = distinct keys produced.",
                  ["percent-encoded spellings of the same decoded path and '' vs '/' are accepted either way", "host:port variants are not part of the language"])


def replay(path):
    print(open(path).read()[:2000])
    return run("quick", vlib.seed())
