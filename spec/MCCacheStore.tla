---------------------------- MODULE MCCacheStore ----------------------------
(* Model-checking wrapper: constant values that a .cfg file cannot express. *)
EXTENDS CacheStore

Shard1    == <<1>>
Shard11   == <<1, 1>>
Shard12   == <<1, 2>>
Shard111  == <<1, 1, 1>>
Shard112  == <<1, 1, 2>>
Shard123  == <<1, 2, 3>>
Shard1123 == <<1, 1, 2, 3>>
Shard1234 == <<1, 2, 3, 4>>

\* state constraint shared by the bounded configurations
ClockBound == clock <= 8

\* VIEW: ghost variables do not distinguish behaviours
View == <<entries, path, objs, bytes, count, lock, pc, op, pend, handles, clock, nextVer, jan, limit>>
=============================================================================
