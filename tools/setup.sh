#!/bin/sh
# Offline setup: pre-compile the harness dependencies (and the race-enabled std) into the Go build cache.
# Nothing here depends on the state of /repo's sources beyond being buildable; every check rebuilds its drivers.
set -e
cd "$(dirname "$0")/../harness"
export GOFLAGS=-mod=mod GOPROXY=off GOSUMDB=off GOTOOLCHAIN=local
cp /repo/go.sum go.sum
mkdir -p ../.build
go1.26 build -tags verif -o ../.build/ ./cmd/... || true
echo setup done
