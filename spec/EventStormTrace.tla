-------------------------- MODULE EventStormTrace --------------------------
(* Judges free-running rounds on the real utils/event.Event (harness/cmd/eventdrv -target storm): one goroutine fires *)
(* 1..last while another unsubscribes every second listener.  At quiescence the specification's FollowersHaveLatest   *)
(* must hold for the listeners that stayed subscribed (they were in every fire's snapshot), ShutDownNotNotified for   *)
(* the others, and nothing may have panicked (UnsubNeverPanics).                                                      *)
EXTENDS Integers, Sequences, FiniteSets, TLC, Json, IOUtils
CONSTANTS TraceFile
TraceLog == ndJsonDeserialize(TraceFile)
VARIABLES l, bads
Line == TraceLog[l]
Cats == (IF \A i \in 1..Len(Line.seen) : Line.seen[i] = Line.last THEN {} ELSE {"live_listener_missed_latest"})
        \cup (IF Line.late = 0 THEN {} ELSE {"called_after_unsubscribe"})
        \cup (IF Line.panicked THEN {"panicked"} ELSE {})
TStep == /\ l <= Len(TraceLog)
         /\ bads' = IF Cats # {} /\ Len(bads) < 40 THEN Append(bads, [line |-> l, cats |-> Cats]) ELSE bads
         /\ l' = l + 1
         /\ TLCSet(1, [l |-> l + 1, bads |-> bads'])
TraceInit == l = 1 /\ bads = <<>> /\ TLCSet(1, [l |-> 1, bads |-> <<>>])
TraceSpec == TraceInit /\ [][TStep]_<<l, bads>>
Report == LET r == TLCGet(1) IN /\ PrintT(<<"TRACE-ALL", r.bads>>)
                                /\ PrintT(<<"TRACE-RESULT", r.l - 1, Len(TraceLog), [line |-> 0]>>)
=============================================================================
