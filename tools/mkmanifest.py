#!/usr/bin/env python3
"""Writes MANIFEST.json from the table below (kept in one place so it is always valid)."""
import json, os
V = os.path.dirname(os.path.dirname(os.path.abspath(__file__)))
props = [json.loads(l) for l in open(os.path.join(V, "properties.jsonl"))]

CLAIMED = {
 "C01": dict(cat="model_checking", ref="DESIGN.md 5 (C01), 3.1",
   text="TLC exhaustively checks ReadsUnmixed/StoredComplete/NoResurrection on the implementation-shaped CacheStore spec (readers at every position x overwriting/failing stores x deletes x blocked callers); TLC-generated behaviours are replayed on the real memory and file caches with gated readers over self-describing bodies and every returned value/chunk is judged by TLC trace validation against the same spec.",
   note="bounded (<=2 keys, 2 clients, 3 versions, 2 chunks in the model; 64 B and 64 KiB chunks in replays); trusted: TLC, the Go runtime's goroutine wait reasons, the self-describing body codec",
   tech="TLA+ spec + TLC exhaustive check + TLC-generated behaviours replayed on the real caches, judged by TLC trace validation"),
 "C12": dict(cat="model_checking", ref="DESIGN.md 5 (C12), 3.1",
   text="TLC exhaustively checks CountersExact/CountersNonNegative over all interleavings of stores (sizes 0..2, failing, empty), overwrites, deletes, expiry+cleanup, eviction and limit changes; TLC-generated behaviours are replayed on both real backends and after every step byteSize, entry count, the metrics twins, the map and the directory listing are compared with the spec by TLC trace validation.",
   note="bounded (<=3 keys, 2 clients); restart over a dirty directory is covered through the constructor wiping the directory at every behaviour start",
   tech="TLA+ spec + TLC exhaustive check + replay with full state projection judged by TLC trace validation"),
 "C13": dict(cat="model_checking", ref="DESIGN.md 5 (C13), 3.1",
   text="TLC checks the eviction/cleanup facts (only-when-over, post-condition, stops-at-target, LRU dominance order, cleanup removes only expired) on every eviction decision of the bounded spec, including operations landing between scan/snapshot and removal; behaviours are replayed on both backends with 1 MiB chunks, stamped LastAccess and a gated janitor, and each decision is judged by TLC trace validation.",
   note="the exact weight of size against age is not enforced (dominance rule); exempt entries as named by the property",
   tech="TLA+ spec + TLC exhaustive check + gated janitor replay judged by TLC trace validation"),
 "C14": dict(cat="model_checking", ref="DESIGN.md 5 (C14), 3.1",
   text="TLC checks deadlock freedom and termination of the lock-level model for shard maps 1,2,3,distinct; contended behaviours (3 clients, blocked callers, store-triggered eviction over same-shard candidates, gated janitor) are replayed on both backends under a watchdog with goroutine wait-reason inspection.",
   note="liveness on the model; watchdog on the code",
   tech="TLA+ lock-level spec + TLC deadlock/liveness check + contended replays under a watchdog"),
 "C03": dict(cat="model_checking", ref="DESIGN.md 5 (C03), 3.2", text="TLC checks the freshness/labelling invariants of the Proxy spec over header forms x policies x time shifts; TLC-generated histories are replayed on the real proxy (scripted origin, shifted entry timestamps) and every exchange (HIT iff no origin contact while fresh, Age/ttl, forced contact once stale) is judged by TLC trace validation.", note="one tick = 10 s of header time, Age/ttl within the real seconds elapsed; 19 header forms incl. case, several lines, malformed dates; all four policy combinations sampled", tech="TLA+ spec + TLC exhaustive check + replay on the real proxy judged by TLC trace validation"),
 "C04": dict(cat="model_checking", ref="DESIGN.md 5 (C04), 3.2", text="The spec's Storable table (in TLA+) decides which 200 GET responses enter the store under each policy; TLC checks StoredIsStorable; replayed histories compare, after every origin answer, what the real store holds (presence and version) with the spec and every later request's reuse/contact with the spec.", note="forms whose two directions of the property disagree (positive max-age + past Expires, Cache-Control without a listed directive) are accepted either way", tech="TLA+ spec + TLC exhaustive check + replay judged by TLC trace validation"),
 "C05": dict(cat="model_checking", ref="DESIGN.md 5 (C05), 3.2", text="TLC checks OneFetchPerFlight / FollowersAccounted / NoOrphanFollowers over all arrival orders, answers and disconnects of 3 clients; replayed histories hold the origin so that clients pile up in one flight, disconnect leaders and followers, and TLC judges the number of origin contacts, who waits, and every client's complete verified response; SlowReaders scenarios (K stalled readers of a 96 MiB body, cacheable or not) check that late-comers and the stalled clients themselves are served completely.", note="3 clients in the model and replays, up to 16 stalled readers in the SlowReaders scenarios; followers are observed by goroutine wait state inside singleflight", tech="TLA+ spec + TLC exhaustive check + replay judged by TLC trace validation"),
 "C06": dict(cat="model_checking", ref="DESIGN.md 5 (C06), 3.2", text="TLC explores revalidation histories (expiry, origin version/validator changes, 304/200/other answers); in replays the origin records the conditional headers it receives, classified against every validator it ever sent and against the client's own conditionals, and TLC judges them and the 304-renew / 200-replace / relay outcome.", note="a synthesised If-Modified-Since (store time) is accepted when the origin sent no Last-Modified", tech="TLA+ spec + TLC exhaustive check + replay judged by TLC trace validation"),
 "C09": dict(cat="fault_enumeration", ref="DESIGN.md 5 (C09), 3.2", text="Faults are steps of the spec placed by TLC: eviction at any point between lookup, revalidation answer and hand-over, another client's disconnect, origin errors; each placement is replayed and every client whose origin answer was good must receive it (status and verified body); store refusals are replayed end to end (empty bodies on both backends, a memory cache with no room: StoreMayRefuse in the spec) and cache-level refusals and hangs (full cache, empty body, failing source, leaked lock) are enumerated by the CacheStore families.", note="write failures of the cache directory are injected at cache level only", tech="TLA+ spec: fault placements generated by TLC, replayed on the real proxy, judged by TLC trace validation"),
 "C07": dict(cat="exploration", ref="DESIGN.md 5 (C07), 3.3", text="Bounded-exhaustive differential check against the TLA+ reference RangeSpec: every token string up to length 4/5 x 5 sizes through the real parser and slicer, outcome judged by TLC for membership in Allowed(prefix, tail, size).", note="bounded token language, function level (plus end-to-end sample when present); not a proof over all strings", tech="TLA+ reference semantics + TLC-enumerated inputs + differential run judged by TLC"),
 "C02": dict(cat="exploration", ref="DESIGN.md 5 (C02), 3.4", text="Bounded-exhaustive partition check against the TLA+ reference CacheKey: enumerated wire targets are parsed by http.ReadRequest and keyed by the real MakeFromRequest; TLC judges that keys are shared exactly as the Strict/Loose identities demand; the same targets are sent twice through the real proxy on a raw socket and the origin's answers name the request that produced each stored entry, so TLC also sees whose entry every response came from.", note="bounded target language; percent-encoding variants and ''/'/' accepted either way", tech="TLA+ reference identity + TLC-enumerated targets + partition judged by TLC"),
 "C08": dict(cat="exploration", ref="DESIGN.md 5 (C08), 3.10", text="Bounded-exhaustive differential check against the TLA+ reference Relay: TLC enumerates relay cases (methods x bodies, path/query spellings, small subsets and the full set of request and response header features, statuses incl. redirects, body kinds, gzip pass-through) on both transports; a raw-socket client drives the real proxy (plain and CONNECT+TLS with a real PrivateCA) against a recording origin, storable GETs are asked twice; TLC judges method, raw path, query, bodies, status and per-field value sequences (end-to-end fields arrive in order, hop-by-hop and Connection-nominated fields do not). The retry_on_range_416 replay family contributes the status-fidelity categories of ProxyTrace.", note="bounded vocabulary; response fields the origin did not send may be added by the proxy; two known findings (Connection: close hides nominated names inside net/http) are listed in known_findings.json", tech="TLA+ reference semantics + TLC-enumerated cases + differential run on the real proxy judged by TLC (+ TLC trace validation of the retry family)"),
 "C10": dict(cat="model_checking", ref="DESIGN.md 5 (C10), 3.10", text="spec/Tunnel.tla keeps the tunnel's responder object explicit; TLC checks Isolated on all exchange sequences up to length 4 and shows it violated for the one-responder-per-tunnel deviation (negative control); all sequences of length 2 (quick) / 2..3 (thorough) over 12 exchange kinds are run on the real proxy over one shared tunnel, one tunnel per exchange and plain HTTP, and TLC trace validation (TunnelTrace) judges every exchange against the spec and the three ways against each other.", note="15 exchange kinds, sequences up to length 3 on the code; framing (Content-Length vs chunked) judged through body identity and left-over bytes", tech="TLA+ spec + TLC exhaustive check + exhaustive short sequences replayed three ways on the real proxy, judged by TLC trace validation"),
 "C16": dict(cat="exploration", ref="DESIGN.md 5 (C16), 3.9", text="Bounded-exhaustive enumeration of the small grammars (range-spec, cache-control/expires, PHC, byte-size) generated by TLC and (with quote and sign tokens) fed to the real parsers under recover(); TLC judges no-panic (and acceptance of well-formed PHC). The relay cases of spec/Relay.tla (request shapes over a raw socket on both transports) must each be answered with a well-formed response, and the retry_on_range_416 / default-policy replay families of spec/Proxy.tla must never end in a dropped connection.", note="no coverage-guided fuzzing; enumerable grammars and the relay vocabulary only", tech="TLC-enumerated grammars + real parsers under recover(), judged by TLC"),
 "C17": dict(cat="exploration", ref="DESIGN.md 5 (C17), 3.6", text="Size-string grammar/value/round-trip judged by TLC against the ByteSize reference over an enumerated string language and boundary byte counts; config save/load and override sequences judged against ConfigCells when present.", note="bounded languages; values above 2^31 compared via quotient/remainder", tech="TLA+ reference grammar + TLC-enumerated inputs + differential run judged by TLC"),
 "C18": dict(cat="fault_enumeration", ref="DESIGN.md 5 (C18), 3.6", text="TLC enumerates update documents (valid / unworkable / ill-typed values, several keys), overrides and a failing file write as steps of the ConfigCells spec and checks OnlyWorkable / FileIsBase / ComponentsFollow; each sequence is replayed on the real config package with a live cache, janitor and listeners, and after every step the effective settings, the components and the file are judged by TLC trace validation; a dead process is a violation.", note="five settings; write failure injected at one byte count per failing update", tech="TLA+ spec: fault placements generated by TLC, replayed on the real config package, judged by TLC trace validation"),
 "C19": dict(cat="model_checking", ref="DESIGN.md 5 (C19), 3.6", text="TLC exhaustively checks the EventBus spec (3 listeners, all subscribe/unsubscribe/fire orders and completion orders) with the pinned tree's two deviations as negative controls; schedules are replayed on the real Event and ConfigProp with gated listeners and on live components through the API update path; observations judged by TLC (EventBusTrace, ConfigCellsTrace).", note="3 listeners, <=4 changes; policy/retry switches are read live per request (covered by the proxy replays)", tech="TLA+ spec + TLC exhaustive check + gated replay judged by TLC trace validation"),
 "C20": dict(cat="model_checking", ref="DESIGN.md 5 (C20), 3.7", text="TLC explores login/logout/expiry/request histories of the Sessions spec and checks NoSessionNoEffect / ExpiredStaysExpired; histories are replayed on the real mux + Harden middleware with the real session table and user database, over every registered route; status class, effects and session liveness after every step are judged by TLC trace validation.", note="the SSE stream route is not driven; CSP constant supplied by a build overlay; session expiry by moving ExpiresAt", tech="TLA+ spec + TLC exhaustive check + replay on the real API judged by TLC trace validation"),
 "C11": dict(cat="exploration", ref="DESIGN.md 5 (C11), 3.8", text="TLC checks the check-then-create issuance protocol under concurrency and expiry; generated batch schedules run on the real PrivateCA and every returned certificate is verified with crypto/x509; reuse / replacement judged by TLC trace validation.", note="cryptographic validity is decided by crypto/x509 (trusted)", tech="TLA+ protocol spec + TLC check + real CA runs with x509 oracle, judged by TLC"),
 "C15": dict(cat="exploration", ref="DESIGN.md 5 (C15), 6", text="Specification-shaped concurrent load (operation mixes of TLC-generated behaviours, free-running) on cache, proxy, event bus, sessions and CA in a -race build; every race reported by the Go race detector is a violation. The lock discipline of the design is model-checked on CacheLocks.", note="oracle: Go race detector; only executed paths are covered", tech="TLC-generated operation mixes as unsynchronised load under the Go race detector (+ TLC check of the lock-level spec)"),
}
ENABLED = os.environ.get("VERIF_CLAIMS", "").split(",") if os.environ.get("VERIF_CLAIMS") else None

def main():
    enabled = [l.strip() for l in open(os.path.join(V, "tools", "claims.txt")) if l.strip() and not l.startswith("#")]
    checks, na = [], []
    for p in props:
        pid = p["id"]
        if pid in enabled and pid in CLAIMED:
            c = CLAIMED[pid]
            checks.append({
                "property_id": pid,
                "quick_cmd": "bin/check %s --tier quick" % pid,
                "thorough_cmd": "bin/check %s --tier thorough" % pid,
                "evidence_file": "evidence/%s.json" % pid,
                "replay_cmd_template": "bin/check %s --replay {path}" % pid,
                "engine": "tla-mbv",
                "level_claimed": {"category": c["cat"], "text": c["text"], "design_ref": c["ref"]},
                "level_note": c["note"],
                "technique": c["tech"],
            })
        else:
            na.append({"property_id": pid, "reason": NA.get(pid, "check not built yet in this session (planned, see DESIGN.md 9); no claim is made")})
    m = {
        "version": 1,
        "setup_cmd": "sh tools/setup.sh",
        "hooks": {
            "guard": "verif",
            "enable": "go build -tags verif (harness module /verif/harness with replace reservoir => /repo; drivers are rebuilt from /repo's working tree by every check)",
            "baseline_off_cmd": "cd /repo && go test -mod=mod -json -vet=off -count=1 -timeout 25m ./...",
            "source_commits": [l.strip() for l in open(os.path.join(V, "tools", "hook_commits.txt")) if l.strip()],
            "add_only": True,
        },
        "engines": [{"name": "tla-mbv", "path": "tools/check.py",
                     "serves_properties": [c["property_id"] for c in checks],
                     "kind_free_text": "explicit TLA+ specifications (spec/*.tla) checked with TLC; TLC-generated behaviours replayed on the real Go code (harness/cmd/*) and recorded traces validated by TLC against the same specifications"}],
        "checks": checks,
        "not_applicable": na,
        "notes": "All verdicts come from real-code behaviour judged against the TLA+ specification; exit 2 = not a verdict. Fixed defects are listed in known_findings.json (status fixed).",
    }
    json.dump(m, open(os.path.join(V, "MANIFEST.json"), "w"), indent=1)
    print("claimed:", [c["property_id"] for c in checks])

NA = {}
if __name__ == "__main__":
    main()
