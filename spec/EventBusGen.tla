----------------------------- MODULE EventBusGen -----------------------------
(* Schedules for the real event bus: subscribe / unsubscribe / fire sequences with every order in *)
(* which asynchronous listener calls may complete (generated from the GoPerCall variant, which    *)
(* admits all completion orders; the verdict comes from EventBusTrace).                           *)
EXTENDS EventBus, Json
CONSTANT Depth
VARIABLE hist
Log(r) == hist' = Append(hist, r)
GenInit == Init /\ hist = <<>>
GenNext ==
    \/ \E l \in L : Subscribe(l) /\ Log([a |-> "sub", l |-> l, v |-> 0])
    \/ \E l \in L : Unsubscribe(l) /\ Log([a |-> "unsub", l |-> l, v |-> 0])
    \/ Fire /\ Log([a |-> "fire", l |-> 0, v |-> fires + 1])
    \/ \E c \in inflight : Complete(c) /\ Log([a |-> "complete", l |-> c[1], v |-> c[2]])
GenSpec == GenInit /\ [][GenNext]_<<vars, hist>>
PrintHist == (TLCGet("level") # Depth) \/ PrintT(<<"HIST", ToJson(hist)>>)
=============================================================================
