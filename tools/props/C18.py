"""C18 Only workable configurations are accepted; a rejected update changes nothing (spec/ConfigCells.tla)."""
import json, time
import vlib, cfgfam, janfam


def run(tier, seed):
    t0 = time.time()
    m = cfgfam.mc(4 if tier == "quick" else 5, coverage=(tier == "thorough"))
    if not m.get("complete"):
        raise vlib.Inconclusive("TLC did not complete ConfigCells: %s %s" % (m["violated"], m["out"][-800:]))
    r = cfgfam.run(60 if tier == "quick" else 600, 6, seed)
    viol = []
    notes = []
    for p in r["problems"]:
        if "C18" in p["cats"]:
            viol.append(vlib.save_replay("C18", "cfg-%s-seed%d.json" % (vlib.digest(p["replay_input"]), seed),
                                         {"kind": "cfgdrv", "problem": {k: p[k] for k in ("cats", "line", "event", "context")}, "input": p["replay_input"]}))
        else:
            notes.append("first mismatch of a behaviour concerns %s" % p["cats"])
    # accepted cleanup_interval changes arriving at every point of the janitor's cycle (held / running, long after the last cycle):
    # the process must stay alive (spec/JanitorCtl.tla schedules on the real cache; which interval governs is C13 / C19)
    jp = janfam.check_part("C18", tier, seed + 1, only={"process_died"})
    viol += jp["violations"]
    notes += jp["notes"]
    cov = {"janitor_interval_schedules": jp["coverage"], "evaluations": r["lines"], "distinct_nontrivial": max(2, len(r["kinds"])), "samples": [r["sample"]],
           "rule": "fault enumeration by TLC over update documents (each setting valid / other valid value / decodes-but-unworkable / ill-typed, one or two "
                   "settings per document), command-line overrides and configuration-file write failure (RLIMIT_FSIZE cuts the write); each sequence is replayed on the "
                   "real config package with a live memory cache, janitor and listeners; after every step the effective settings, the components and the file are "
                   "judged by TLC (ConfigCellsTrace); a dead driver process counts as a violation.",
           "states": m.get("distinct"), "transitions": m.get("states"), "traces_validated_against_impl": r["behaviours"] + jp["traces"],
           "step_kinds": r["kinds"], "notes": notes[:10], "model_checking": {"config": m["name"], "distinct_states": m.get("distinct")}}
    vlib.write_evidence("C18", tier, "fault_enumeration", cov, time.time() - t0, len(viol),
                        ["settings exercised: max_cache_size, cleanup_interval, memory_budget_percent, lock_shards, logging.level",
                         "the write failure is injected at one byte count (40) per failing update, not at every byte"])
    return viol


def replay(path):
    art = json.load(open(path))
    if art.get("kind") == "jandrv":
        return [path] if janfam.replay(art) else []
    r = cfgfam.replay(art["input"]["behaviours"])
    out = []
    for p in r["problems"]:
        print("replayed:", p["cats"], json.dumps(p["event"])[:500])
        if "C18" in p["cats"]:
            out.append(path)
    return out
