---------------------------- MODULE InputsGen ----------------------------
EXTENDS Inputs
VARIABLE dummy
ASSUME WriteCases
Spec == dummy = 0 /\ [][FALSE]_dummy
ExpFormsDef == {<<>>, <<"0">>, <<"GOODDATE">>, <<"PASTDATE">>, <<"x", "SP", "9">>}
PhcFieldsDef == [id |-> {"argon2id", "argon2i", "EMPTY"}, ver |-> {"v=19", "v=", "v=x", "19"},
                 par |-> {"m=65536,t=1,p=2,l=32", "m=65536,t=1,p=2", "m=0,t=1,p=2", "m=99999999999,t=1,p=2", "m=65536,t=1,p=999", "t=1", "m=1=2", "EMPTY", ",,", "m=65536,t=1,p=2,l=4", "m=65536,t=0,p=2", "m=65536,t=1,p=0", "m=8,t=1,p=1"},
                 salt |-> {"SALT16", "SALT24", "SALT8", "!!", "EMPTY"}, hash |-> {"HASH32", "HASH4", "EMPTY", "!!"}]
=============================================================================
