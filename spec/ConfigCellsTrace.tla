-------------------------- MODULE ConfigCellsTrace --------------------------
(***************************************************************************)
(* Judges recorded runs of the real config package against ConfigCells.    *)
(* Each line is an Override or an Update step with what was observed after *)
(* every notification had been delivered: the effective value of every     *)
(* setting ("eff"), what the live components follow ("comp"), what the     *)
(* configuration file holds ("file"), and whether the update was accepted. *)
(* Differences are reported with the property they contradict:             *)
(*   C18  accept/reject decision, a rejected update changing anything,     *)
(*        an accepted one not changing exactly the addressed settings,     *)
(*        the file not holding what the next start must load               *)
(*   C17  an override not winning or being written to the file             *)
(*   C19  a live component not following the effective value               *)
(***************************************************************************)
EXTENDS ConfigCells, Json, IOUtils

CONSTANT TraceFile
TraceLog == ndJsonDeserialize(TraceFile)
VARIABLES l, bad, bads
tvars == <<vars, l, bad, bads>>
Line == TraceLog[l]
Is(a) == l <= Len(TraceLog) /\ Line.a = a
F(r, name, dflt) == IF name \in DOMAIN r THEN r[name] ELSE dflt
Judging == bad.line = 0

DocOf(ln) == [p \in DOMAIN ln.doc |-> ln.doc[p]]

Cats(wasUpdate, rejected) ==
    LET effOK  == \A p \in Props : Line.eff[p] = Eff(base', ovr', p)
        compOK == \A p \in Live : Line.comp[p] = Eff(base', ovr', p)
        fileOK == \A p \in Props : Line.file[p] = base'[p]
        resOK  == ~wasUpdate \/ (Line.res = lastRes')
        ovrP   == {p \in Props : ovr'[p] # None}
    IN (IF ~resOK THEN {"C18"} ELSE {})
       \cup (IF effOK THEN {} ELSE IF \E p \in ovrP : Line.eff[p] # ovr'[p] THEN {"C17"} ELSE {"C18"})
       \cup (IF fileOK THEN {} ELSE IF \E p \in ovrP : Line.file[p] = ovr'[p] /\ ovr'[p] # base'[p] THEN {"C17"} ELSE {"C18"})
       \cup (IF compOK THEN {} ELSE IF rejected THEN {"C18", "C19"} ELSE {"C19"})
       \cup (IF "panic" \in DOMAIN Line THEN {"C18", "C16"} ELSE {})

Consume(wasUpdate, rejected) ==
    /\ l' = l + 1
    /\ LET c == Cats(wasUpdate, rejected)
       IN /\ bad' = IF bad.line = 0 /\ c # {} THEN [line |-> l, cats |-> c] ELSE bad
          /\ bads' = IF bad.line = 0 /\ c # {} /\ Len(bads) < 40 THEN Append(bads, [line |-> l, cats |-> c]) ELSE bads
    /\ TLCSet(1, [l |-> l + 1, bads |-> bads'])
Skip == l' = l + 1 /\ UNCHANGED <<vars, bad, bads>> /\ TLCSet(1, [l |-> l + 1, bads |-> bads])

TReset == /\ Is("reset")
          /\ base' = [p \in Props |-> "v1"] /\ ovr' = [p \in Props |-> None] /\ comp' = [p \in Props |-> "v1"]
          /\ file' = [p \in Props |-> "v1"] /\ steps' = 0 /\ lastRes' = "none"
          /\ l' = l + 1 /\ bad' = [line |-> 0] /\ UNCHANGED bads /\ TLCSet(1, [l |-> l + 1, bads |-> bads])
TAfterBad == l <= Len(TraceLog) /\ ~Judging /\ Line.a # "reset" /\ Skip
TOverride == Is("override") /\ Judging /\ Override(Line.p, Line.v) /\ Consume(FALSE, FALSE)
TUpdate == /\ Is("update") /\ Judging
           /\ Update(DocOf(Line), Line.ok)
           /\ Consume(TRUE, lastRes' = "rejected")

TraceInit == Init /\ l = 1 /\ bad = [line |-> 0] /\ bads = <<>> /\ TLCSet(1, [l |-> 1, bads |-> <<>>])
TraceNext == TReset \/ TAfterBad \/ TOverride \/ TUpdate
TraceSpec == TraceInit /\ [][TraceNext]_tvars
Report == LET r == TLCGet(1) IN /\ PrintT(<<"TRACE-ALL", r.bads>>)
                                /\ PrintT(<<"TRACE-RESULT", r.l - 1, Len(TraceLog), [line |-> 0]>>)
=============================================================================
