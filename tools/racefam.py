"""C15: free-running load whose shape comes from the specifications, under the Go race detector."""
import json, os, re, shutil, time
import vlib, cachefam

RP = re.escape(vlib.REPO.rstrip("/"))  # source paths in race reports start with the tree the drivers were built from


def run(nbeh, rounds, seed):
    f = cachefam.fam("race_gen", "NF_count", 24, Backend="memory", NKeys=3, ShardOf="<- Shard112", NClients=3, InitLimit=3, Limits={2, 3},
                     Janitor=True, MaxVer=4, MaxObj=9, MaxHandles=1)
    consts = cachefam.consts_of(f)
    gen_cfg = vlib.cfg_text(dict(consts, Depth=f["depth"], NF="<- " + f["nf"], Bias=True, TrapCap=0), spec="GenSpec", invariants=["PrintHist"])
    hists = vlib.tlc_simulate("CacheStoreGen", gen_cfg, nbeh + nbeh // 2 + 2, f["depth"], seed)[:nbeh]
    binp = vlib.go_build("racedrv", race=True)
    d = vlib.scratch("race-")
    try:
        json.dump({"behaviours": hists}, open(os.path.join(d, "in.json"), "w"))
        t0 = time.time()
        rc, out, err, _ = vlib.run_driver(binp, ["-in", "in.json", "-rounds", str(rounds)], cwd=d, timeout=1500,
                                          env={"GORACE": "halt_on_error=0 exitcode=0 history_size=3"})
        races = parse_races(err)
        m = re.search(r"fatal error: (concurrent map[^\n]*)\n(?:.*\n)*?(reservoir/[^\s(]+(?:\([^)]*\))?[^\s(]*)\(.*\n\s+" + RP + r"/(\S+?):(\d+)", err)
        if m:
            # the runtime itself detected unsynchronised map access inside the proxy and killed the process
            races.append({"pair": "fatal: %s in %s" % (m.group(1), m.group(2)), "where": ["%s:%s" % (m.group(3), m.group(4))], "count": 1,
                          "excerpt": err[m.start():m.start() + 1200]})
        elif "racedrv done" not in out:
            raise vlib.Inconclusive("racedrv did not finish (rc=%s): %s" % (rc, err[-2500:]))
        ops = sum(len(h) for h in hists)
        return {"behaviours": len(hists), "ops": ops, "races": races, "wall": time.time() - t0, "sample": hists[0][:12]}
    finally:
        shutil.rmtree(d, ignore_errors=True)


FRAME = re.compile(r"^\s+(reservoir/[\w/.()*\[\]]+)\(\)?\n\s+(" + RP + r"/[\w/._-]+):(\d+)", re.M)


def parse_races(stderr):
    """Returns distinct races keyed by the pair of innermost reservoir frames (function names, no line numbers)."""
    out = {}
    for block in stderr.split("WARNING: DATA RACE")[1:]:
        block = block.split("==================")[0]
        parts = re.split(r"\n\n", block)
        tops = []
        for part in parts[:2]:
            m = re.search(r"\n\s+(reservoir/[^\s(]+(?:\([^)]*\))?[^\s]*)\(\)\n\s+(" + RP + r"/\S+?):(\d+)", "\n" + part)
            if m:
                fn = re.sub(r"\[\.\.\.\]", "", m.group(1))
                tops.append((fn, m.group(2).replace(vlib.REPO.rstrip("/") + "/", "") + ":" + m.group(3)))
            else:
                tops.append(("?", "?"))
        if len(tops) < 2:
            continue
        key = " <-> ".join(sorted(t[0] for t in tops))
        if key not in out:
            out[key] = {"pair": key, "where": [t[1] for t in tops], "count": 0, "excerpt": block.strip()[:1200]}
        out[key]["count"] += 1
    return list(out.values())
