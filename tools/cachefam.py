"""CacheStore families: exhaustive TLC configurations and replay/trace-validation runs that bind
spec/CacheStore.tla to cache/memory_cache.go, cache/file_cache.go and cache/cache_janitor.go."""
import json, os, shutil, time
import vlib

SHARDMAPS = {"Shard1": [1], "Shard11": [1, 1], "Shard12": [1, 2], "Shard111": [1, 1, 1], "Shard112": [1, 1, 2],
             "Shard123": [1, 2, 3], "Shard1123": [1, 1, 2, 3], "Shard1234": [1, 2, 3, 4]}

BASE = dict(NKeys=2, NClients=2, ShardOf="<- Shard11", MaxVer=3, MaxChunks=2, Backend="memory", Dev=set(),
            MaxHandles=2, MaxObj=6, InitLimit=100, Limits={100}, MemCap=100, TickMs=170, Weight=0,
            FailStores=True, Janitor=False, UseClock=False, Blocking=True,
            UpdVals={True, False}, Deletes=True)


def fam(name, nf, depth, chunk=64, lru=False, shards=None, bias=True, **over):
    c = dict(BASE)
    c.update(over)
    return dict(name=name, consts=c, nf=nf, depth=depth, chunk=chunk, lru=lru, shards=shards, bias=bias)


# category -> property
CAT2PROP = {"data": "C01", "counters": "C12", "evict": "C13", "hang": "C14", "fresh": "C03"}
# a line no action explains: attribute by what kind of step it was
STRUCT2PROP = {"read": "C01", "get": "C01", "commit": "C01", "abort": "C01", "chunk": "C01", "close": "C01",
               "store": "C13", "scan": "C13", "jremove": "C13", "ensure": "C13", "evstep": "C13",
               "delete": "C12", "update": "C12", "quiesce": "C12", "reset": "C12", "destroy": "C14",
               "resume": "C01", "setlimit": "C13", "expire": "C13", "stamp": "C13"}


def reader_families(backend):
    f = []
    for sm in ("Shard11", "Shard12"):
        f.append(fam("c01_%s_%s" % (backend, sm), "NF_read", 30, Backend=backend, ShardOf="<- " + sm))
    f.append(fam("c01_%s_1key" % backend, "NF_read", 24, Backend=backend, NKeys=1, ShardOf="<- Shard1", MaxVer=4))
    f.append(fam("c01_%s_big" % backend, "NF_read", 24, chunk=65552, Backend=backend, ShardOf="<- Shard12"))
    return f


def counter_families(backend):
    f = []
    for sm in ("Shard11", "Shard12"):
        f.append(fam("c12_%s_%s" % (backend, sm), "NF_count", 30, Backend=backend, ShardOf="<- " + sm,
                     InitLimit=3, Limits={2, 3}, Janitor=True, MaxVer=3))
    f.append(fam("c12_%s_3keys" % backend, "NF_count", 32, Backend=backend, NKeys=3, ShardOf="<- Shard112",
                 InitLimit=4, Limits={3, 4}, Janitor=True, MaxVer=2, MaxObj=8))
    if backend == "memory":
        f.append(fam("c12_memory_cap0", "NF_count", 16, Backend=backend, ShardOf="<- Shard12", MemCap=0,
                     InitLimit=3, Limits={3}, memPct=0))
    return f


def evict_families(backend):
    f = []
    common = dict(Backend=backend, Janitor=True, UseClock=True, Weight=100, MaxChunks=3, MaxVer=2, FailStores=False,
                  MaxHandles=1)
    f.append(fam("c13_%s_3keys_s112" % backend, "NF_evict", 30, chunk=1 << 20, lru=True, NKeys=3, ShardOf="<- Shard112",
                 InitLimit=5, Limits={3, 5}, MaxObj=8, **common))
    f.append(fam("c13_%s_3keys_s123" % backend, "NF_evict", 30, chunk=1 << 20, lru=True, NKeys=3, ShardOf="<- Shard123",
                 InitLimit=4, Limits={4, 6}, MaxObj=8, **common))
    f.append(fam("c13_%s_4keys" % backend, "NF_evict", 34, chunk=1 << 20, lru=True, NKeys=4, ShardOf="<- Shard1123",
                 InitLimit=6, Limits={4, 6}, MaxObj=10, **common))
    if backend == "memory":
        # the memory budget, not max_cache_size, is the limit in force (max_cache_size is set far above it): stores at the
        # limit must evict down to 80% of the limit in force all the same (no cleanup cycles: they look at max_cache_size only)
        f.append(fam("c13_memory_budget_bound", "NF_evict", 28, chunk=1 << 20, lru=True, NKeys=3, ShardOf="<- Shard123",
                     InitLimit=3, Limits={3}, MaxObj=8, capBound=True, **dict(common, Janitor=False)))
    return f


def lock_families(backend):
    f = []
    common = dict(Backend=backend, Janitor=True, UseClock=False, NClients=3, FailStores=True, MaxHandles=1)
    f.append(fam("c14_%s_1shard" % backend, "NF_count", 34, NKeys=2, ShardOf="<- Shard11", InitLimit=2, Limits={1, 2},
                 MaxVer=4, MaxObj=8, **common))
    f.append(fam("c14_%s_2shards" % backend, "NF_count", 34, NKeys=3, ShardOf="<- Shard112", InitLimit=3, Limits={2, 3},
                 MaxVer=3, MaxObj=9, **common))
    f.append(fam("c14_%s_3shards" % backend, "NF_count", 34, NKeys=3, ShardOf="<- Shard123", InitLimit=3, Limits={2, 3},
                 MaxVer=3, MaxObj=9, **common))
    f.append(fam("c14_%s_many" % backend, "NF_count", 34, NKeys=3, ShardOf="<- Shard123", InitLimit=3, Limits={2, 3},
                 MaxVer=3, MaxObj=9, shards=1024, **common))
    return f


def trap_families(backend):
    """Targeted generation: exhaustive search for the states in which a subtle window is open."""
    t = []
    t.append(dict(fam("trap_%s_reader" % backend, "NF_read", 16, Backend=backend, NKeys=1, ShardOf="<- Shard1", NClients=3,
                      MaxVer=2, MaxChunks=2, MaxHandles=2, MaxObj=6, Janitor=False, FailStores=True, UpdVals=set(),
                      Deletes=True), traps={5, 6, 7, 12, 14}))
    t.append(dict(fam("trap_%s_expiry_while_waiting" % backend, "NF_read", 14, Backend=backend, NKeys=2, ShardOf="<- Shard11", NClients=2,
                      MaxVer=2, MaxChunks=1, MaxHandles=2, MaxObj=5, Janitor=True, FailStores=False, UpdVals=set(),
                      Deletes=False), traps={16}, prefix_suffix=[{"a": "expire", "k": 1}, {"a": "expire", "k": 2}]))
    t.append(dict(fam("trap_%s_evict" % backend, "NF_evict2", 18, chunk=1 << 20, lru=True, Backend=backend, NKeys=3,
                      ShardOf="<- Shard112", NClients=1, MaxVer=2, MaxChunks=2, MaxHandles=0, MaxObj=6, InitLimit=3,
                      Limits={3}, Janitor=True, UseClock=True, Weight=100, FailStores=False, UpdVals=set(), Deletes=True),
                  traps={1, 2, 8, 9, 10, 11, 15}))
    t.append(dict(fam("trap_%s_cleanup" % backend, "NF_one", 14, Backend=backend, NKeys=2, ShardOf="<- Shard12", NClients=2,
                      MaxVer=2, MaxChunks=1, MaxHandles=0, MaxObj=5, InitLimit=2, Limits={1, 2}, Janitor=True,
                      FailStores=False, UpdVals={False}, Deletes=False), traps={3, 4, 13}))
    return t


SUFFIX = ([{"a": "jstep"}] * 6 + [{"a": "commit", "p": p} for p in (1, 2, 3) for _ in range(3)] +
          [{"a": "read", "h": h} for h in (1, 2) for _ in range(3)])


def run_traps(f, cap, seed, timeout=60, workers=8):
    import random
    consts = consts_of(f)
    cfg = vlib.cfg_text(dict(consts, Depth=f["depth"], NF="<- " + f["nf"], Bias=False, TrapCap=cap), spec="TrapSpec",
                        invariants=["Traps"], view="View", constraint="HistBound")
    traps, st = vlib.tlc_traps("CacheStoreGen", cfg, timeout=timeout, workers=workers)
    hists, per = [], {}
    rnd = random.Random(seed)
    for i in sorted(traps):
        if i not in f["traps"]:
            continue
        hs = traps[i]
        rnd.shuffle(hs)
        hs = hs[:cap]
        per[i] = len(hs)
        for h in hs:
            tail = dict(h[-1]) if h else {}
            suffix = []
            for stp in list(f.get("prefix_suffix", [])) + SUFFIX:
                if stp.get("p", 0) > consts["NClients"] or stp.get("h", 0) > consts["MaxHandles"]:
                    continue
                x = {"a": stp["a"], "p": stp.get("p", 0), "k": stp.get("k", 0), "n": 0, "f": 0, "h": stp.get("h", 0), "e": 0, "l": 0, "r": 0,
                     "la": tail.get("la", []), "clk": tail.get("clk", 1)}
                suffix.append(x)
            hists.append(h + suffix)
    if not hists:
        raise vlib.Inconclusive("trap search for %s found no behaviours (rc=%s): %s" % (f["name"], st["rc"], st["tail"][-600:]))
    r = replay_and_validate(f, hists)
    r["traps_hit"] = per
    r["trap_search_states"] = st["distinct"]
    return r


def consts_of(f):
    c = dict(f["consts"])
    c.pop("memPct", None)
    c.pop("capBound", None)
    return c


def run_family(f, num, seed, keep_dir=None):
    """simulate -> replay on the real cache -> validate. Returns a result dict."""
    consts = consts_of(f)
    gen_cfg = vlib.cfg_text(dict(consts, Depth=f["depth"], NF="<- " + f["nf"], Bias=f["bias"], TrapCap=0), spec="GenSpec", invariants=["PrintHist"])
    # (some random walks dead-end before Depth and are not printed: ask for more, keep num)
    hists = vlib.tlc_simulate("CacheStoreGen", gen_cfg, num + num // 2 + 2, f["depth"], seed)[:num]
    return replay_and_validate(f, hists, keep_dir)


def driver_config(f):
    consts = f["consts"]
    sm = SHARDMAPS[consts["ShardOf"].replace("<- ", "")]
    return {"backend": consts["Backend"], "shardOf": sm, "shards": f.get("shards") or max(sm),
            "clients": consts["NClients"], "chunk": f["chunk"], "limit": consts["InitLimit"],
            "memPct": consts.get("memPct", 75), "lru": f["lru"], "tickMs": consts["TickMs"],
            "handles": consts["MaxHandles"], "watchdogMs": 4000, "capBound": bool(consts.get("capBound", False))}


def replay_and_validate(f, hists, keep_dir=None, inp=None):
    consts = consts_of(f)
    binp = vlib.go_build("cachedrv")
    d = vlib.scratch("cachefam-")
    try:
        if inp is None:
            inp = {"family": f["name"], "config": driver_config(f), "behaviours": hists}
        json.dump(inp, open(os.path.join(d, "in.json"), "w"))
        t0 = time.time()
        rc, out, err, _ = vlib.run_driver(binp, ["-in", "in.json", "-out", "trace.ndjson"], cwd=d, timeout=1800)
        tdrv = time.time() - t0
        if rc != 0:
            raise vlib.Inconclusive("cachedrv exited %s: %s" % (rc, err[-2000:]))
        # (MaxVer only bounds the generator; a real run may consume more versions, e.g. after forced aborts)
        tr_cfg = vlib.cfg_text(dict(consts, MaxVer=99, TraceFile="trace.ndjson"), spec="TraceSpec", postcondition="Report")
        r = vlib.tlc_validate("CacheStoreTrace", tr_cfg, os.path.join(d, "trace.ndjson"), timeout=1800)
        lines = [json.loads(x) for x in open(os.path.join(d, "trace.ndjson"))]
        res = {"family": f["name"], "behaviours": len(inp["behaviours"]), "lines": r["total"], "consumed": r["consumed"],
               "bad": r["bad"], "driver_s": round(tdrv, 2), "tlc_s": round(r["wall"], 2), "states": r["distinct"],
               "problems": [], "kinds": {}, "sample": None}
        for ln in lines:
            k = "%s:%s" % (ln.get("a"), ln.get("res", ""))
            res["kinds"][k] = res["kinds"].get(k, 0) + 1
        # a behaviour sample for the evidence file
        b1 = [dict((k, v) for k, v in ln.items() if k not in ("snap", "dump")) for ln in lines if ln.get("b") == 1][:40]
        res["sample"] = b1
        # a step that never came back is a hang whatever happened before it
        for idx, ln in enumerate(lines):
            if ln.get("res") == "hang":
                b = ln.get("b")
                beh = inp["behaviours"][b - 1] if b and b - 1 < len(inp["behaviours"]) else []
                dump = next((x.get("dump", "") for x in lines[idx:idx + 3] if x.get("a") == "hangdump"), "")
                res["problems"].append({"props": ["C14"], "cats": ["hang"], "line": idx + 1, "behaviour": b, "model": None,
                                        "event": dict((k, v) for k, v in ln.items() if k not in ("dump", "snap")),
                                        "context": [dict((k, v) for k, v in x.items() if k not in ("snap", "dump"))
                                                    for x in lines[max(0, idx - 6):idx]],
                                        "goroutines": dump[:3000],
                                        "replay_input": {"family": f["name"], "config": inp["config"], "behaviours": [beh]}})
                break
        # end-of-behaviour audit: what a lookup returns for each key is the whole body of the version its metadata names
        # (StoredComplete / ReadsUnmixed on the real state; independent of where the run first left the specification)
        for idx, ln in enumerate(lines):
            # (also: the handle a successful store returns must read back exactly the body that was stored)
            if (ln.get("probe") and ln.get("pbody") is False) or (ln.get("res") == "ok" and ln.get("rb") is False):
                b = ln.get("b")
                beh = inp["behaviours"][b - 1] if b and b - 1 < len(inp["behaviours"]) else []
                res["problems"].append({"props": ["C01"], "cats": ["probe_body" if ln.get("probe") else "stored_body"], "line": idx + 1, "behaviour": b, "model": None,
                                        "event": dict((k, v) for k, v in ln.items() if k not in ("dump", "snap")),
                                        "context": [dict((k, v) for k, v in x.items() if k not in ("snap", "dump"))
                                                    for x in lines[max(0, idx - 8):idx] if x.get("b") == b],
                                        "replay_input": {"family": f["name"], "config": inp["config"], "behaviours": [beh]}})
                break
        first = None
        if r["bad"]:
            first = ("soft", r["bad"]["line"], r["bad"]["cats"])
        if r["consumed"] < r["total"]:
            ln = lines[r["consumed"]]
            cat = "hang" if ln.get("res") in ("hang",) or ln.get("a") == "hangdump" else "struct"
            if first is None or r["consumed"] + 1 < first[1]:
                first = (cat, r["consumed"] + 1, [cat])
        if first:
            kind, lineno, cats = first
            ln = lines[lineno - 1]
            props = set()
            for c in cats:
                if c == "struct":
                    props.add(STRUCT2PROP.get(ln.get("a"), "C01"))
                else:
                    props.add(CAT2PROP.get(c, "C01"))
            b = ln.get("b")
            beh = inp["behaviours"][b - 1] if b and b - 1 < len(inp["behaviours"]) else []
            res["problems"].append({"props": sorted(props), "cats": cats, "line": lineno, "behaviour": b,
                                    "model": (r["bad"] or {}).get("model") if kind == "soft" else None,
                                    "event": dict((k, v) for k, v in ln.items() if k != "dump"),
                                    "context": [dict((k, v) for k, v in x.items() if k not in ("snap", "dump"))
                                                for x in lines[max(0, lineno - 6):lineno]],
                                    "replay_input": {"family": f["name"], "config": inp["config"], "behaviours": [beh]}})
        if keep_dir:
            os.makedirs(keep_dir, exist_ok=True)
            shutil.copy(os.path.join(d, "trace.ndjson"), os.path.join(keep_dir, f["name"] + ".trace.ndjson"))
        return res
    finally:
        shutil.rmtree(d, ignore_errors=True)


def mc(name, invariants, workers=16, timeout=900, constraint="ClockBound", view="View", coverage=False, **over):
    c = dict(BASE)
    c.update(over)
    cfg = vlib.cfg_text(c, spec="Spec", invariants=invariants, constraint=constraint, view=view)
    r = vlib.tlc_check("MCCacheStore", cfg, workers=workers, timeout=timeout, coverage=coverage)
    r["name"] = name
    r["constants"] = {k: (sorted(v) if isinstance(v, (set, frozenset)) else v) for k, v in c.items()}
    return r


def c03_runs(tier, seed):
    """Cache-level part of C03: a lookup reports an entry stale exactly if its lifetime has elapsed, also when the lookup
    had to wait for a shard lock while the lifetime ran out (targeted generation, trap 16)."""
    from props.cachecommon import confirmed
    out = {"violations": [], "notes": [], "coverage": {"cache_level_families": []}, "traces": 0}
    for be in ("memory", "file"):
        tf = [t for t in trap_families(be) if "expiry" in t["name"]][0]
        r = run_traps(tf, 8 if tier == "quick" else 60, seed, timeout=25 if tier == "quick" else 300, workers=5)
        out["traces"] += r["behaviours"]
        out["coverage"]["cache_level_families"].append({k: r[k] for k in ("family", "behaviours", "lines", "consumed")})
        for p in r["problems"]:
            if "C03" in p["props"] and confirmed(tf, p, "C03"):
                out["violations"].append(vlib.save_replay("C03", "%s-%s-seed%d.json" % (tf["name"], vlib.digest(p["replay_input"]), seed),
                                                          {"kind": "cachedrv", "problem": {k: p.get(k) for k in ("props", "cats", "line", "event", "context", "model")},
                                                           "input": p["replay_input"]}))
    return out


def c09_runs(tier, seed):
    """Cache-level part of C09: no placement of eviction / deletion relative to stores and lookups leaves a later operation
    hanging (the request that issued it would hang with it). Targeted generation, eviction traps on both backends."""
    from props.cachecommon import confirmed
    out = {"violations": [], "notes": [], "coverage": {"cache_level_families": []}, "traces": 0}
    for be in ("memory", "file"):
        for tf in [t for t in trap_families(be) if "evict" in t["name"]]:
            r = run_traps(tf, 8 if tier == "quick" else 60, seed, timeout=25 if tier == "quick" else 300, workers=5)
            out["traces"] += r["behaviours"]
            out["coverage"]["cache_level_families"].append({k: r[k] for k in ("family", "behaviours", "lines", "consumed")})
            done = False
            for p in r["problems"]:
                if "hang" in p["cats"] and not done and confirmed(tf, p, "C14"):
                    done = True
                    out["violations"].append(vlib.save_replay("C09", "%s-%s-seed%d.json" % (tf["name"], vlib.digest(p["replay_input"]), seed),
                                                              {"kind": "cachedrv", "problem": {k: p.get(k) for k in ("props", "cats", "line", "event", "context", "model")},
                                                               "input": p["replay_input"]}))
    return out
