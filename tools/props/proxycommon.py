"""Common runner for the properties decided on spec/Proxy.tla (C03 C04 C05 C06 C09)."""
import json, os, time
from concurrent.futures import ThreadPoolExecutor
import vlib, proxyfam

SMALL = dict(Forms="<- SmallForms", FormStorable="<- SmallStorable", FormLife="<- SmallLife")


def mcs_default(tier):
    out = [lambda: proxyfam.mc("proxy_1res_2clients_get_range", timeout=400, NRes=1, NClients=2, ValKinds={"etag", "none"},
                               MaxVer=2, MaxNow=4, MaxX=4, Kinds={"get", "range"}, Conds={"none"}, **SMALL)]
    # the policy switches change in the middle of a history (action SetPolicy)
    out.append(lambda: proxyfam.mc("proxy_policy_flips_1res_2clients", timeout=400, NRes=1, NClients=2, PolicyFlips=True,
                                   ValKinds={"etag", "none"}, MaxVer=2, MaxNow=3, MaxX=3, Kinds={"get"}, Conds={"none"}, **SMALL))
    if tier == "thorough":
        out.append(lambda: proxyfam.mc("proxy_policy_flips_reval", timeout=1500, NRes=1, NClients=2, PolicyFlips=True,
                                       ValKinds={"etag", "none"}, MaxVer=2, MaxNow=5, MaxX=4, Kinds={"get"}, Conds={"none", "inm"}, **SMALL))
        out.append(lambda: proxyfam.mc("proxy_1res_3clients_get", timeout=900, coverage=True, NRes=1, NClients=3,
                                       ValKinds={"etag", "none"}, MaxVer=2, MaxNow=4, MaxX=5, Kinds={"get"}, Conds={"none"}, **SMALL))
        out.append(lambda: proxyfam.mc("proxy_2res_2clients", timeout=1500, NRes=2, NClients=2, ValKinds={"etag"}, MaxVer=2,
                                       MaxNow=3, MaxX=4, Kinds={"get"}, Conds={"none"}, **SMALL))
    return out


def run_proxy_property(prop, tier, seed, fams, nquick, nthorough, rule, assumptions, mcs=mcs_default, extra_runs=None,
                       level="model_checking"):
    t0 = time.time()
    vlib.go_build("proxydrv")
    viol, notes, mcres = [], [], []
    states = transitions = 0
    for m in mcs(tier):
        r = m()
        if not r.get("complete"):
            if r["violated"]:
                raise vlib.Inconclusive("TLC reports %s violated on the model (%s): %s" % (r["violated"], r["name"], r.get("trace_actions")))
            raise vlib.Inconclusive("TLC did not complete %s (rc=%s): %s" % (r["name"], r["rc"], r["out"][-1200:]))
        states += r.get("distinct", 0)
        transitions += r.get("states", 0)
        mcres.append({"config": r["name"], "distinct_states": r.get("distinct"), "states_generated": r.get("states"),
                      "depth": r.get("depth"), "wall_s": round(r["wall"], 1), "constants": r["constants"],
                      "actions_never_taken": sorted(a for a, n in (r.get("actions") or {}).items() if n == 0)})
    n = nquick if tier == "quick" else nthorough
    flist = list(fams(tier))
    with ThreadPoolExecutor(max_workers=9) as ex:
        results = list(ex.map(lambda t: proxyfam.run_family(t[1], n, seed * 1000 + 500 + t[0]), enumerate(flist)))
    traces = lines = 0
    kinds, famres, sample = {}, [], None
    for f, r in zip(flist, results):
        traces += r["behaviours"]
        lines += r["consumed"]
        for k, v in r["kinds"].items():
            kinds[k] = kinds.get(k, 0) + v
        sample = sample or r["sample"]
        famres.append({k: r[k] for k in ("family", "behaviours", "lines", "consumed", "driver_s", "tlc_s")})
        seen = set()
        for p in r["problems"]:
            if prop in p["props"]:
                key = (p["event"].get("a"), tuple(p["cats"]))
                if key in seen:
                    continue
                if not confirmed(f, p, prop):
                    _debug_dump(f, p)
                    notes.append("family %s behaviour %s: a mismatch (line %d, %s) did not reproduce when replayed alone; not counted" %
                                 (f["name"], p["behaviour"], p["line"], ",".join(p["cats"])))
                    continue
                seen.add(key)
                path = vlib.save_replay(prop, "%s-%s-seed%d.json" % (f["name"], vlib.digest(p["replay_input"]), seed),
                                        {"kind": "proxydrv", "problem": {k: p[k] for k in ("props", "cats", "line", "event", "context", "kind")},
                                         "input": p["replay_input"]})
                viol.append(path)
            else:
                _debug_dump(f, p)
                notes.append("family %s behaviour %s: first mismatch (line %d) concerns %s, not %s" %
                             (f["name"], p["behaviour"], p["line"], ",".join(p["props"]), prop))
    extra_cov = {}
    for x in (extra_runs or []):
        xr = x(tier, seed)
        viol += xr.get("violations", [])
        notes += xr.get("notes", [])
        extra_cov.update(xr.get("coverage", {}))
        traces += xr.get("traces", 0)
    cov = {"states": max(states, 1), "transitions": max(transitions, 1), "traces_validated_against_impl": traces,
           "samples": [sample] if sample else [mcres[:1]], "evaluations": lines, "distinct_nontrivial": len(kinds),
           "rule": rule, "model_checking": mcres, "replay_families": famres, "trace_line_kinds": kinds, "notes": notes[:40]}
    cov.update(extra_cov)
    for nl in notes[:20]:
        print("NOTE " + nl)
    vlib.write_evidence(prop, tier, level, cov, time.time() - t0, len(viol), assumptions)
    return viol


def _debug_dump(f, p):
    """VERIF_DEBUG_NOTES=<dir>: keep what was seen for mismatches that are not reported (for studying flakiness)"""
    d = os.environ.get("VERIF_DEBUG_NOTES")
    if d:
        os.makedirs(d, exist_ok=True)
        json.dump({k: p.get(k) for k in ("props", "cats", "line", "kind", "event", "context", "replay_input", "model")},
                  open(os.path.join(d, "%s-b%s-%d.json" % (f["name"], p["behaviour"], int(time.time() * 1000) % 100000)), "w"), indent=1)


def confirmed(f, p, prop):
    """see cachecommon.confirmed"""
    for _ in range(2):
        try:
            r = proxyfam.replay_and_validate(f, p["replay_input"]["behaviours"], inp=dict(p["replay_input"]))
        except vlib.Inconclusive:
            continue
        if any(prop in q["props"] for q in r["problems"]):
            return True
    return False


def replay_file(prop, path):
    art = json.load(open(path))
    inp = art["input"]
    allf = proxyfam.all_families()
    f = next((x for x in allf if x["name"] == inp.get("family")), None)
    if f is None:
        raise vlib.Inconclusive("unknown family %s" % inp.get("family"))
    r = proxyfam.replay_and_validate(f, inp["behaviours"], inp=inp)
    out = []
    for p in r["problems"]:
        print("replayed: mismatch at line %d cats=%s event=%s" % (p["line"], p["cats"], json.dumps(p["event"])[:600]))
        if prop in p["props"]:
            out.append(path)
    if not r["problems"]:
        print("replayed: trace accepted (%d lines)" % r["consumed"])
    return out


RULE = ("TLC explores the bounded Proxy configuration(s) exhaustively (clients x resources x header forms x validator kinds x "
        "time shifts x evictions x disconnects) and checks the design invariants; TLC -simulate behaviours are replayed on the "
        "real proxy (real sockets, scripted origin holding every request until the behaviour answers it, time passing by "
        "shifting the entries' own timestamps) and every origin contact (with its conditional headers classified) and every "
        "client response (status, labels, Age/ttl, self-describing body, validators) is judged by TLC (ProxyTrace). "
        "distinct_nontrivial = distinct (step kind, status/kind) pairs replayed.")
ASSUME = ["plain-HTTP transport in this check (CONNECT is covered by C10)", "one tick = 10 s of header time; Age/ttl compared with a 1 s tolerance",
          "bounds: <=2 resources, 3 clients, 19 header forms, 5 validator kinds"]
