"""CacheLocks configurations (C14): TLC deadlock / termination checks of the lock-level model."""
import vlib

BASE = dict(NKeys=2, ShardOf="<- LShard11", NClients=2, NOps=1, Backend="memory", EvictMode="try", NCycles=1,
            NIntervalChanges=1, NBudgetChanges=1)
INV = ["NoDeadlock", "EvictNeverWaitsForOwnLock", "LocksReleased"]


def mc(name, live, timeout=600, expect_deadlock=False, **over):
    c = dict(BASE)
    c.update(over)
    cfg = vlib.cfg_text(c, spec="SpecB", invariants=INV, properties=["OpsTerminate"] if live else [])
    r = vlib.tlc_check("MCCacheLocks", cfg, timeout=timeout)
    r["name"] = name
    r["constants"] = c
    if expect_deadlock:
        # vacuity guard: the excluded design (blocking Lock inside evict) MUST deadlock in the model
        if "NoDeadlock" not in r["violated"]:
            raise vlib.Inconclusive("CacheLocks with EvictMode=block did not deadlock: the model no longer expresses C14")
        r["complete"] = True
        r["violated"] = []
        r["constants"] = dict(c, note="negative control: blocking eviction deadlocks after %s" % r.get("trace_actions"))
    return r


def mcs(tier):
    out = [lambda: mc("locks_memory_s11_live", True),
           lambda: mc("locks_memory_block_negative_control", False, expect_deadlock=True, EvictMode="block"),
           lambda: mc("locks_file_s12_safety", False, Backend="file", ShardOf="<- LShard12", NOps=2, NIntervalChanges=1)]
    if tier == "thorough":
        out += [lambda: mc("locks_file_s12_live", True, Backend="file", ShardOf="<- LShard12"),
                lambda: mc("locks_memory_s1_live", True, NKeys=1, ShardOf="<- LShard1", NOps=2),
                lambda: mc("locks_memory_s112_safety", False, NKeys=3, ShardOf="<- LShard112", NOps=2),
                lambda: mc("locks_memory_s123_safety", False, NKeys=3, ShardOf="<- LShard123", NOps=1),
                lambda: mc("locks_file_s112_safety", False, Backend="file", NKeys=3, ShardOf="<- LShard112", NOps=2),
                lambda: mc("locks_file_s123_safety", False, Backend="file", NKeys=3, ShardOf="<- LShard123", NOps=1),
                lambda: mc("locks_memory_s12_3clients", False, NClients=3, ShardOf="<- LShard12", NOps=1, timeout=1500)]
    return out
