"""C01 Served bodies are complete, unmixed origin bodies of the requested resource (cache level; the
proxy-level part is added by proxyfam when available)."""
import cachefam
from props.cachecommon import run_cache_property, replay_file

INV = ["StoredComplete", "ReadsUnmixed", "NoResurrection", "CountersNonNegative"]


def mcs(tier):
    out = []
    for be in ("memory", "file"):
        c = dict(Backend=be, NClients=2, FailStores=True, Janitor=False)
        if tier == "quick":
            out.append(lambda be=be, c=c: cachefam.mc("c01_%s_1key" % be, INV, timeout=300, NKeys=1, ShardOf="<- Shard1",
                                                      MaxVer=3, MaxChunks=2, MaxHandles=2, MaxObj=5, **c))
        else:
            out.append(lambda be=be, c=c: cachefam.mc("c01_%s_1key" % be, INV, timeout=600, NKeys=1, ShardOf="<- Shard1",
                                                      MaxVer=3, MaxChunks=2, MaxHandles=2, MaxObj=5, coverage=True, **c))
            out.append(lambda be=be, c=c: cachefam.mc("c01_%s_2keys_sameshard" % be, INV, timeout=1200, NKeys=2,
                                                      ShardOf="<- Shard11", MaxVer=2, MaxChunks=2, MaxHandles=1, MaxObj=5, **c))
            out.append(lambda be=be, c=c: cachefam.mc("c01_%s_2keys_janitor" % be, INV, timeout=1200, NKeys=2,
                                                      ShardOf="<- Shard12", MaxVer=2, MaxChunks=1, MaxHandles=1, MaxObj=5,
                                                      InitLimit=2, Limits={2}, **dict(c, Janitor=True, Blocking=False)))
    return out


def fams(tier):
    # plus, per backend, one family in which stores arrive at a full cache and make room by eviction first
    # (what the store then holds, and what later reads deliver, must still be the whole body)
    return (cachefam.reader_families("memory") + cachefam.reader_families("file")
            + [cachefam.evict_families(be)[1] for be in ("memory", "file")])


def traps(tier):
    return [t for be in ('memory','file') for t in cachefam.trap_families(be) if 'reader' in t['name'] or 'expiry' in t['name'] or 'evict' in t['name']]


def run(tier, seed):
    extra = []
    try:
        import proxyfam
        extra.append(proxyfam.c01_runs)
    except ImportError:
        pass
    return run_cache_property(
        "C01", tier, seed, mcs, fams, 80, 800, "model_checking",
        "TLC explores every interleaving of readers (at every read position), stores/overwrites with failing "
        "sources, deletes and blocked callers in the bounded CacheStore configuration(s) and checks ReadsUnmixed / "
        "StoredComplete / NoResurrection in every state; TLC -simulate behaviours are replayed on the real "
        "MemoryCache and FileCache with gated source readers and chunk-wise reader handles over self-describing "
        "bodies (every 16-byte block names key, version, offset); every value returned by Get/Cache and every "
        "chunk read is compared with the specification by TLC (CacheStoreTrace). distinct_nontrivial = distinct "
        "(step kind, outcome) pairs observed on the real code. Stores that first make room by eviction are part of the families and of the targeted behaviours; the body a successful store hands back and the body a lookup returns for every key at the end of a behaviour are audited block by block whatever went before.",
        ["bodies are 1..2 chunks of 64 B or 64 KiB+16 B in replays", "cache level and proxy level (see notes) only; "
         "a 200/206 assembled by net/http below the responder is trusted"],
        extra_runs=extra)


def replay(path):
    import json
    if json.load(open(path)).get("kind") == "proxydrv":
        from props.proxycommon import replay_file as proxy_replay
        return proxy_replay("C01", path)
    return replay_file("C01", path)
