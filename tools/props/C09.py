"""C09 Cache-side trouble never turns a good origin answer into an error (spec/Proxy.tla)."""
import proxyfam
from props.proxycommon import run_proxy_property, replay_file, RULE, ASSUME


def fams(tier):
    # every family is judged for every property of the Proxy specification (a mismatch is reported by the
    # property it concerns, whichever family shows it)
    return proxyfam.policy_families() + proxyfam.flight_families() + proxyfam.reval_families() + proxyfam.retry_families() + proxyfam.refusal_families()


def run(tier, seed):
    import cachefam
    extra = [cachefam.c09_runs]
    return run_proxy_property("C09", tier, seed, fams, 40, 400, RULE, ASSUME, extra_runs=extra, level="fault_enumeration")


def replay(path):
    import json
    if json.load(open(path)).get("kind") == "cachedrv":
        from props.cachecommon import replay_file as cache_replay
        return cache_replay("C14", path)
    return replay_file("C09", path)
