#!/usr/bin/env python3
"""Regenerates the generated tables of DESIGN.md (between <!-- BEGIN x --> / <!-- END x --> markers) from
known_findings.json and seeded/*/meta.json, so that the document and the machinery cannot drift apart."""
import json, os, re, glob
V = os.path.dirname(os.path.dirname(os.path.abspath(__file__)))


def findings_table():
    d = json.load(open(os.path.join(V, "known_findings.json")))
    rows = ["| property | status | commit | what failed / how it was found |", "|---|---|---|---|"]
    for f in sorted(d["findings"], key=lambda x: (x["property"], x.get("commit", ""))):
        what = re.sub(r"^fixed: property=\w+ \w+ ", "", f["what"]).replace("|", "\\|")
        rows.append("| %s | %s | %s | %s |" % (f["property"], f["status"], f.get("commit", "—"), what))
    return "\n".join(rows)


def seeds_table():
    rows = ["| seeded change | property | what it does | what it takes | detected by |", "|---|---|---|---|---|"]
    for m in sorted(glob.glob(os.path.join(V, "seeded", "*", "meta.json"))):
        x = json.load(open(m))
        name = os.path.basename(os.path.dirname(m))
        rows.append("| `%s` | %s | %s | %s | %s |" % (name, x["property"], x["change"].replace("|", "\\|"), x.get("needs", "").replace("|", "\\|"),
                                                   "; ".join(x["detected_by"]).replace("|", "\\|")))
    return "\n".join(rows)


def props_table():
    m = json.load(open(os.path.join(V, "MANIFEST.json")))
    rows = ["| property | level | how it is decided (quick / thorough differ in bounds only) | limits |", "|---|---|---|---|"]
    for c in m["checks"]:
        rows.append("| %s | %s | %s | %s |" % (c["property_id"], c["level_claimed"]["category"], c["level_claimed"]["text"].replace("|", "\\|"),
                                              c.get("level_note", "").replace("|", "\\|")))
    return "\n".join(rows)


def main():
    p = os.path.join(V, "DESIGN.md")
    s = open(p).read()
    for tag, fn in (("FINDINGS", findings_table), ("SEEDS", seeds_table), ("PROPS", props_table)):
        pat = re.compile(r"(<!-- BEGIN %s -->\n).*?(<!-- END %s -->)" % (tag, tag), re.S)
        if pat.search(s):
            s = pat.sub(lambda m: m.group(1) + fn() + "\n" + m.group(2), s)
    open(p, "w").write(s)


if __name__ == "__main__":
    main()
