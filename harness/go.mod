module verifharness

go 1.26

require (
	github.com/shirou/gopsutil/v4 v4.26.1
	reservoir v0.0.0
)

require (
	golang.org/x/crypto v0.48.0 // indirect
	golang.org/x/sync v0.19.0 // indirect
	golang.org/x/sys v0.41.0 // indirect
)

replace reservoir => /repo
