"""C03 A stored response is reused only while fresh; expiry forces an origin contact (spec/Proxy.tla)."""
import proxyfam
from props.proxycommon import run_proxy_property, replay_file, RULE, ASSUME


def fams(tier):
    return proxyfam.policy_families() + proxyfam.reval_families()


def run(tier, seed):
    extra = []
    try:
        import props.C03x as x
        extra = x.EXTRA
    except ImportError:
        pass
    return run_proxy_property("C03", tier, seed, fams, 40, 400, RULE, ASSUME, extra_runs=extra)


def replay(path):
    return replay_file("C03", path)
