"""C05 Concurrent identical requests share one origin fetch; each gets a full answer (spec/Proxy.tla)."""
import proxyfam
from props.proxycommon import run_proxy_property, replay_file, RULE, ASSUME


def fams(tier):
    # every family is judged for every property of the Proxy specification (a mismatch is reported by the
    # property it concerns, whichever family shows it)
    return proxyfam.flight_families() + proxyfam.policy_families() + proxyfam.reval_families() + proxyfam.retry_families() + proxyfam.refusal_families()


SLOW_RULE = (" Slow readers: spec/SlowReaders.tla enumerates scenarios (K in {1,9,12} (thorough: {1,3,8,9,12,16}) clients that stop reading after the "
             "response head of a 96 MiB resource x cacheable / no-store x sized / streamed); a late-comer for the same resource, a request for another "
             "resource of the same origin and, afterwards, the slow clients themselves must all receive complete answers (the late-comers within 10 s).")


def slow_readers(tier, seed):
    import vlib, relayfam
    out = {"violations": [], "notes": [], "coverage": {"slow_reader_scenarios": []}, "traces": 0}
    for backend, ks in ((("memory", {1, 9, 12}),) if tier == "quick" else (("memory", {1, 3, 8, 9, 12, 16}), ("file", {1, 9, 12}))):
        r = relayfam.slow_run(ks, backend)
        out["traces"] += r["scenarios"]
        out["coverage"]["slow_reader_scenarios"].append({k: r[k] for k in ("backend", "scenarios", "nbad")})
        if r["nbad"]:
            again = relayfam.slow_run(ks, backend)  # reproduce before reporting
            if again["nbad"]:
                print("slow readers: %s" % str(again["bad"])[:600])
                out["violations"].append(vlib.save_replay("C05", "slowreaders-%s-seed%d.json" % (backend, seed), {"kind": "relaydrv-slow", "backend": backend, "ks": sorted(ks), "bad": again["bad"]}))
            else:
                out["notes"].append("slow-reader mismatch did not reproduce; not counted")
    return out


def run(tier, seed):
    return run_proxy_property("C05", tier, seed, fams, 40, 400, RULE + SLOW_RULE, ASSUME, extra_runs=[slow_readers])


def replay(path):
    import json
    art = json.load(open(path))
    if art.get("kind") == "relaydrv-slow":
        import relayfam
        r = relayfam.slow_run(set(art["ks"]), art.get("backend", "memory"))
        print(r["bad"])
        return [path] if r["nbad"] else []
    return replay_file("C05", path)
