"""C13 Size limit enforced by LRU eviction; cleanup removes exactly the expired."""
import cachefam
from props.cachecommon import run_cache_property, replay_file

INV = ["EvictOnlyWhenOver", "EvictPost", "EvictStopsAtTarget", "EvictOrder", "CleanupRemovesOnlyExpired",
       "CountersExact", "CountersNonNegative"]


def mcs(tier):
    out = []
    for be in ("memory", "file"):
        c = dict(Backend=be, NClients=1, FailStores=False, Janitor=True, UseClock=True, Weight=100, Blocking=False,
                 MaxHandles=0, NKeys=3, ShardOf="<- Shard112", MaxChunks=2, MaxObj=4, InitLimit=3)
        if tier == "quick":
            out.append(lambda be=be, c=c: cachefam.mc("c13_%s_3keys" % be, INV, timeout=300, constraint="ClockBound6",
                                                      MaxVer=1, Limits={3}, UpdVals={False}, Deletes=False, **c))
        else:
            out.append(lambda be=be, c=c: cachefam.mc("c13_%s_3keys_limits" % be, INV, timeout=1500, constraint="ClockBound6",
                                                      MaxVer=1, Limits={2, 3}, UpdVals={False}, Deletes=True,
                                                      coverage=True, **c))
            out.append(lambda be=be, c=c: cachefam.mc("c13_%s_2clients_window" % be, INV, timeout=1500,
                                                      constraint="ClockBound6", MaxVer=2, Limits={3}, UpdVals={False},
                                                      Deletes=False, **dict(c, NClients=2, NKeys=2, ShardOf="<- Shard12", MaxObj=5)))
    return out


def fams(tier):
    return cachefam.evict_families("memory") + cachefam.evict_families("file")


def traps(tier):
    return [t for be in ('memory','file') for t in cachefam.trap_families(be) if 'reader' not in t['name']]


def run(tier, seed):
    extra = []
    try:
        import janfam
        extra.append(janfam.c13_runs)
    except ImportError:
        pass
    return run_cache_property(
        "C13", tier, seed, mcs, fams, 40, 400, "model_checking",
        "TLC explores populations of <=3 entries (sizes 1..2(3) chunks, every access order through the logical "
        "clock, expiry flags), limits changed at run time, store-triggered and cycle-triggered eviction with "
        "TryLock skips, and client operations landing between the cleanup scan and each removal and between the "
        "eviction snapshot and each candidate visit; the L1 facts EvictOnlyWhenOver / EvictPost / "
        "EvictStopsAtTarget / EvictOrder (dominance) / CleanupRemovesOnlyExpired are invariants. Behaviours are "
        "replayed on both real backends with 1 MiB chunks (so the size weight is live), LastAccess stamped from "
        "the model clock, the janitor goroutine gated at every candidate; TLC (CacheStoreTrace) judges every "
        "eviction/cleanup decision observed. Interval changed at run time: spec/JanitorCtl.tla (listener -> one-slot mailbox -> janitor) is checked "
        "by TLC (LatestGoverns, Settles; drop-when-full negative control) and every visible schedule of changes x hold/release of the janitor "
        "up to length 5/6 runs on the real cache; TLC judges the interval the janitor ends up on.",
        ["the exact weight of size against age is not part of the verdict (dominance rule only)",
         "entries exempt from the ordering claim: TryLock-skipped, sharing the triggering store's shard (memory "
         "backend), or changed while the eviction ran"],
        extra_runs=extra)


def replay(path):
    import json
    art = json.load(open(path))
    if art.get("kind") == "jandrv":
        import janfam
        return [path] if janfam.replay(art) else []
    return replay_file("C13", path)
