----------------------------- MODULE JanitorCtl -----------------------------
(***************************************************************************)
(* How a run-time change of cache.cleanup_interval reaches the janitor     *)
(* (cache/cache_janitor.go, utils/event) for the last clause of C13 and    *)
(* the "however quickly changes follow one another" clause of C19.         *)
(*                                                                         *)
(*   cfg     the configured interval (latest accepted change)              *)
(*   queue   notifications the event bus still has to hand to the janitor's*)
(*           listener, in order (one delivery goroutine per listener)      *)
(*   box     the janitor's one-slot mailbox (chan time.Duration, cap 1)    *)
(*   jan     the interval the janitor's ticker runs on                     *)
(*   busy    the janitor is inside a cleanup cycle (it does not look at    *)
(*           its mailbox until the cycle ends)                             *)
(* Deliver is the listener's send into the mailbox.  The code blocks while *)
(* the slot is taken (the listener's next notifications wait behind it).   *)
(* DropWhenFull = TRUE is the named deviation "never block the listener":  *)
(* the new value is dropped and the superseded one stays in the slot.      *)
(***************************************************************************)
EXTENDS Integers, Sequences, FiniteSets, TLC

CONSTANTS Vals, MaxChanges, DropWhenFull

VARIABLES cfg, queue, box, jan, busy, nch
vars == <<cfg, queue, box, jan, busy, nch>>

Init == cfg = 0 /\ queue = <<>> /\ box = <<>> /\ jan = 0 /\ busy = FALSE /\ nch = 0

Change(v) == /\ nch < MaxChanges /\ v # cfg
             /\ cfg' = v /\ queue' = Append(queue, v) /\ nch' = nch + 1
             /\ UNCHANGED <<box, jan, busy>>
Deliver == /\ queue # <<>>
           /\ IF box = <<>> THEN box' = <<Head(queue)>> /\ queue' = Tail(queue)
              ELSE DropWhenFull /\ box' = box /\ queue' = Tail(queue)
           /\ UNCHANGED <<cfg, jan, busy, nch>>
Recv == /\ ~busy /\ box # <<>>
        /\ jan' = box[1] /\ box' = <<>>
        /\ UNCHANGED <<cfg, queue, busy, nch>>
CycleBegin == ~busy /\ busy' = TRUE /\ UNCHANGED <<cfg, queue, box, jan, nch>>
CycleEnd   == busy /\ busy' = FALSE /\ UNCHANGED <<cfg, queue, box, jan, nch>>

Next == (\E v \in Vals : Change(v)) \/ Deliver \/ Recv \/ CycleBegin \/ CycleEnd
\* (the janitor keeps cycling: its look at the mailbox is only intermittently possible, hence strong fairness)
Spec == Init /\ [][Next]_vars /\ WF_vars(Deliver) /\ SF_vars(Recv) /\ WF_vars(CycleEnd)

Quiescent == queue = <<>> /\ box = <<>> /\ ~busy
\* the latest change governs the following cycles
LatestGoverns == Quiescent => jan = cfg
\* and it gets there: no change is stuck for ever
Settles == (nch = MaxChanges) ~> (queue = <<>> /\ box = <<>> /\ jan = cfg)

\* the outcome of all internal steps that can happen without the environment (used by the generator and the trace spec)
RECURSIVE SettleF(_, _, _, _)
SettleF(q, b, j, bz) == IF q # <<>> /\ b = <<>> THEN SettleF(Tail(q), <<Head(q)>>, j, bz)
                        ELSE IF ~bz /\ b # <<>> THEN SettleF(q, <<>>, b[1], bz)
                        ELSE [queue |-> q, box |-> b, jan |-> j]
=============================================================================
