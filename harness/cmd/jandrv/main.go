// jandrv replays the visible schedules of spec/JanitorCtl.tla on a real cache with its real janitor: changes of
// cache.cleanup_interval through the real configuration property, while the janitor is running freely or is held
// inside a cleanup cycle (parked at the verifhook scheduling point of an expired entry's removal). After every
// step it records the interval the janitor runs on (its own "interval" event). TLC judges the record.
package main

import (
	"context"
	"encoding/json"
	"flag"
	"fmt"
	"os"
	"strings"
	"sync"
	"time"

	"reservoir/cache"
	"reservoir/config"
	"reservoir/utils/duration"
	"reservoir/utils/verifhook"
)

type Step struct {
	A string `json:"a"`
	V int    `json:"v"`
}

type seqIn struct {
	S     int    `json:"s"`
	Steps []Step `json:"steps"`
}



func ivOf(v int) time.Duration { return time.Duration(5+2*v) * time.Millisecond }

var (
	mu       sync.Mutex
	lastIv   time.Duration
	lastAt   time.Time
	holdWant bool
	parked   chan struct{}
	gate     chan struct{}
)

func main() {
	in := flag.String("in", "", "sequences NDJSON")
	outp := flag.String("out", "", "trace NDJSON")
	backend := flag.String("backend", "memory", "memory | file")
	flag.Parse()
	raw, err := os.ReadFile(*in)
	if err != nil {
		fmt.Fprintln(os.Stderr, err)
		os.Exit(2)
	}
	f, _ := os.Create(*outp)
	defer f.Close()
	enc := json.NewEncoder(f)
	verifhook.EmitFn = func(ev string, key string, a int64, b int64) {
		if ev == "interval" {
			mu.Lock()
			lastIv, lastAt = time.Duration(a), time.Now()
			mu.Unlock()
		}
	}
	verifhook.YieldFn = func(point string, key string) {
		if point != "clean_visit" {
			return
		}
		mu.Lock()
		w, p, g := holdWant, parked, gate
		if w {
			holdWant = false
		}
		mu.Unlock()
		if w {
			close(p)
			<-g
		}
	}
	dir, _ := os.Getwd()
	for _, ln := range strings.Split(strings.TrimSpace(string(raw)), "\n") {
		var s seqIn
		if err := json.Unmarshal([]byte(ln), &s); err != nil {
			fmt.Fprintln(os.Stderr, err)
			os.Exit(2)
		}
		cfg := config.NewDefault()
		cfg.Cache.CleanupInterval.Overwrite(duration.Duration(ivOf(0)))
		cfg.Cache.File.Dir.Overwrite(fmt.Sprintf("%s/jc-%d", dir, s.S))
		ctx, cancel := context.WithCancel(context.Background())
		var c cache.Cache[int]
		if *backend == "file" {
			c = cache.NewFileCache[int](cfg, cfg.Cache.File.Dir.Read(), 1<<30, ivOf(0), 4, ctx)
		} else {
			c = cache.NewMemoryCache[int](cfg, 90, 1<<30, ivOf(0), 4, ctx)
		}
		vc := c.(cache.VerifCache)
		mu.Lock()
		lastIv, lastAt = ivOf(0), time.Now()
		mu.Unlock()
		enc.Encode(map[string]any{"a": "reset", "s": s.S})
		held := false
		// the interval the janitor runs on once nothing more happens by itself
		settle := func() int {
			deadline := time.Now().Add(1500 * time.Millisecond)
			for time.Now().Before(deadline) {
				mu.Lock()
				quiet := time.Since(lastAt) > 40*time.Millisecond
				mu.Unlock()
				if quiet {
					break
				}
				time.Sleep(2 * time.Millisecond)
			}
			mu.Lock()
			defer mu.Unlock()
			for v := 0; v <= 9; v++ {
				if ivOf(v) == lastIv {
					return v
				}
			}
			return -1
		}
		time.Sleep(3 * ivOf(0))
		for i, st := range s.Steps {
			line := map[string]any{"a": st.A, "s": s.S, "i": i + 1, "v": st.V}
			switch st.A {
			case "change":
				cfg.Cache.CleanupInterval.Overwrite(duration.Duration(ivOf(st.V)))
				mu.Lock()
				lastAt = time.Now()
				mu.Unlock()
			case "hold":
				mu.Lock()
				parked, gate = make(chan struct{}), make(chan struct{})
				holdWant = true
				p := parked
				mu.Unlock()
				key := cache.FromString(fmt.Sprintf("hold-%d-%d", s.S, i))
				if _, err := c.Cache(key, strings.NewReader("expired soon"), time.Now().Add(time.Hour), 0); err != nil {
					line["err"] = "store: " + err.Error()
				}
				vc.VerifSetExpires(key, time.Now().Add(-time.Second))
				select {
				case <-p:
					held = true
				case <-time.After(3 * time.Second):
					line["err"] = "janitor did not reach the removal of the expired entry"
				}
			case "release":
				if held {
					close(gate)
					held = false
				}
				mu.Lock()
				lastAt = time.Now()
				mu.Unlock()
			}
			line["jan"] = settle()
			enc.Encode(line)
		}
		if held {
			close(gate)
		}
		c.Destroy()
		cancel()
		os.RemoveAll(cfg.Cache.File.Dir.Read())
	}
	fmt.Println("jandrv done")
}
