// Package bodies provides self-describing content: every 16-byte block of a body names the
// resource (key), the version and its own block index, so any byte slice read back from the
// cache or the proxy identifies which body it came from and at which offset.
package bodies

import (
	"fmt"
	"hash/crc32"
	"sync"
)

const hexd = "0123456789abcdef"

var (
	cacheMu sync.Mutex
	cache   = map[[2]int][]byte{}
)

const Block = 16

// blockAt renders block number i of body (key, ver) into dst[0:16].
func blockAt(dst []byte, key, ver int, i int64) {
	dst[0], dst[1] = hexd[(key>>4)&0xf], hexd[key&0xf]
	dst[2], dst[3] = hexd[(ver>>4)&0xf], hexd[ver&0xf]
	u := uint32(i)
	for j := 0; j < 8; j++ {
		dst[4+j] = hexd[(u>>(28-4*uint(j)))&0xf]
	}
	c := crc32.ChecksumIEEE(dst[:12]) & 0xffff
	for j := 0; j < 4; j++ {
		dst[12+j] = hexd[(c>>(12-4*uint(j)))&0xf]
	}
}

// Make returns the body (key, ver) of exactly size bytes (the last block may be cut short).
// The returned slice is a fresh copy.
func Make(key, ver int, size int64) []byte {
	cacheMu.Lock()
	defer cacheMu.Unlock()
	id := [2]int{key, ver}
	cur := cache[id]
	if int64(len(cur)) < size {
		n := (size + Block - 1) / Block
		buf := make([]byte, n*Block)
		copy(buf, cur)
		for i := int64(len(cur) / Block); i < n; i++ {
			blockAt(buf[i*Block:], key, ver, i)
		}
		cur = buf
		if len(cache) > 64 {
			cache = map[[2]int][]byte{}
		}
		cache[id] = cur
	}
	out := make([]byte, size)
	copy(out, cur[:size])
	return out
}

// Ident describes what a byte slice is.
type Ident struct {
	OK     bool // every byte is consistent with one (key, ver) body read contiguously
	Key    int
	Ver    int
	Offset int64 // byte offset of the first byte within that body
	Len    int64
}

// Identify decodes a slice that is claimed to start at byte offset `at` of some body. It finds
// the (key, ver) from the first complete block and then verifies every byte.
func Identify(b []byte, at int64) Ident {
	id := Ident{Offset: at, Len: int64(len(b))}
	if len(b) == 0 {
		id.OK = true
		return id
	}
	// locate first complete block
	first := (at + Block - 1) / Block
	off := first*Block - at
	if off+Block > int64(len(b)) {
		// less than one full block: cannot name key/ver on its own; try all small keys/versions
		for k := 0; k < 64; k++ {
			for v := 0; v < 64; v++ {
				want := Make(k, v, at+int64(len(b)))[at:]
				if string(want) == string(b) {
					id.OK, id.Key, id.Ver = true, k, v
					return id
				}
			}
		}
		return id
	}
	var k, v int
	var bi uint32
	if _, err := fmt.Sscanf(string(b[off:off+12]), "%02x%02x%08x", &k, &v, &bi); err != nil {
		return id
	}
	id.Key, id.Ver = k, v
	want := Make(k, v, at+int64(len(b)))[at:]
	id.OK = string(want) == string(b)
	return id
}
