"""Input-space checks: TLC enumerates a bounded token language from the reference specification, the Go driver
runs the real parser / key function on every case, TLC judges the recorded outcomes against the reference operators."""
import json, os, re, shutil, time
import vlib

RANGE_TOKS = {"0", "1", "5", "9", "-", ",", "SP", "x", "B63", "B64"}
RANGE_PREFIXES = {"bytes=", "Bytes=", "items=", "bytes", "bytes =", "=", ""}
SIZES = [0, 1, 2, 10, 1000]
# a path segment long enough that everything behind it lies beyond byte 256 of any textual form of the request
LONGSEG = "l" + "o" * 258 + "ng"


def _gen_and_run(gen_module, judge_module, consts, mode, d, extra_args=(), timeout=900):
    cfg = vlib.cfg_text(consts, spec="Spec")
    r = vlib.tlc_check(gen_module, cfg, timeout=timeout, workers=1)
    cases = os.path.join(d, "cases.ndjson")
    if r["rc"] != 0 or not os.path.exists(cases):
        raise vlib.Inconclusive("%s produced no cases (rc=%s): %s" % (gen_module, r["rc"], r["out"][-1500:]))
    ncases = sum(1 for _ in open(cases))
    binp = vlib.go_build("inputdrv")
    rc, out, err, _ = vlib.run_driver(binp, ["-mode", mode, "-in", cases, "-out", os.path.join(d, "res.ndjson")] + list(extra_args), cwd=d, timeout=900)
    if rc != 0:
        raise vlib.Inconclusive("inputdrv %s failed: %s" % (mode, err[-1500:]))
    r2 = vlib.tlc_check(judge_module, cfg, timeout=timeout, workers=1, heap="24g")
    return ncases, r2


def range_run(maxlen):
    """Returns dict(cases, evaluations, bad, first, samples)."""
    d = vlib.scratch("range-")
    try:
        consts = dict(MaxLen=maxlen, Sizes=set(SIZES), Toks=RANGE_TOKS, UnitPrefixes=RANGE_PREFIXES, IfRangeOn=False, FullOK=False,
                      CaseFile=os.path.join(d, "cases.ndjson"), ResultFile=os.path.join(d, "res.ndjson"))
        ncases, r = _gen_and_run("RangeGen", "RangeJudge", consts, "range", d, ["-sizes", ",".join(map(str, SIZES))])
        m = re.search(r'<<\s*"RANGE-RESULT",\s*(\d+),\s*(\d+),(.*)>>\s*\n', r["out"], re.S)
        if not m:
            raise vlib.Inconclusive("range judge gave no result: %s" % r["out"][-2000:])
        total, bad = int(m.group(1)), int(m.group(2))
        detail = " ".join(m.group(3).split())
        badvals = []
        outcomes = {}
        sample = []
        for i, line in enumerate(open(os.path.join(d, "res.ndjson"))):
            x = json.loads(line)
            k = x["out"][0]
            outcomes[k] = outcomes.get(k, 0) + 1
            if i % 9973 == 0 and len(sample) < 12:
                sample.append({"value": x["v"], "size": x["size"], "out": x["out"]})
        return {"cases": ncases, "evaluations": total, "bad": bad, "detail": detail[:6000], "outcomes": outcomes, "sample": sample}
    finally:
        shutil.rmtree(d, ignore_errors=True)


def key_run(maxsegs, wide=False, e2e=True):
    d = vlib.scratch("key-")
    try:
        consts = dict(Methods={"GET", "HEAD", "POST"} if wide else {"GET", "HEAD"},
                      Hosts={"h.example", "H.EXAMPLE", "other.example", "Other.Example"} if wide else {"h.example", "H.EXAMPLE", "other.example"},
                      Segs={"a", LONGSEG, ".", "..", "", "a|b", "a%7Cb", "a%3Fb"}, LastSegs={"a", "b", "a|b", "a%7Cb", "a%3Fb"},
                      Queries={"NONE", "b", "b=", "c", "b|c", "x=1&y=2", "y=2&x=1"}, MaxSegs=maxsegs,
                      CaseFile=os.path.join(d, "cases.ndjson"), ResultFile=os.path.join(d, "res.ndjson"),
                      E2EFile=os.path.join(d, "e2e.ndjson"))
        ncases, r = _gen_and_run("CacheKeyGen", "CacheKeyJudge", consts, "key", d)
        m = re.search(r'<<\s*"KEY-RESULT",\s*(\d+),\s*(\d+),\s*(\d+),\s*(\d+),(.*)>>\s*\n', r["out"], re.S)
        if not m:
            raise vlib.Inconclusive("key judge gave no result: %s" % r["out"][-2000:])
        sample = [json.loads(l) for i, l in enumerate(open(os.path.join(d, "cases.ndjson"))) if i % 397 == 0][:10]
        res = {"cases": ncases, "hexes": int(m.group(2)), "collisions": int(m.group(3)), "splits": int(m.group(4)),
               "detail": " ".join(m.group(5).split())[:3000], "sample": sample}
        if e2e:
            # the same targets through the real proxy (host spellings mapped to localhost / LOCALHOST / 127.0.0.1)
            binp = vlib.go_build("relaydrv")
            rc, out, err, _ = vlib.run_driver(binp, ["-mode", "key", "-in", os.path.join(d, "cases.ndjson"), "-out", os.path.join(d, "e2e.ndjson")],
                                              cwd=d, timeout=1800)
            if rc != 0 or "relaydrv done" not in out:
                raise vlib.Inconclusive("relaydrv key failed (rc=%s): %s" % (rc, err[-1500:]))
            r3 = vlib.tlc_check("CacheKeyE2E", vlib.cfg_text(consts, spec="Spec"), timeout=1200, workers=1, heap="16g")
            m3 = re.search(r'<<\s*"KEY-E2E-RESULT",\s*(\d+),\s*(\d+),\s*(\d+),\s*(\d+),(.*)>>\s*\n', r3["out"], re.S)
            if not m3:
                raise vlib.Inconclusive("key e2e judge gave no result: %s" % r3["out"][-2000:])
            res["e2e"] = {"cases": int(m3.group(1)), "wrong": int(m3.group(2)), "origin_gets_first_pass": int(m3.group(3)),
                          "get_identities": int(m3.group(4)), "detail": " ".join(m3.group(5).split())[:2000]}
        return res
    finally:
        shutil.rmtree(d, ignore_errors=True)


SIZE_VALUES = {0, 1, 512, 1023, 1024, 1025, 1536, 2047, 2048, 1048575, 1048576, 1048577, 1572864, 5242880, 5242881,
               1073741823, 1073741824, 1073741825, 1610612736, 2147483647}


def size_run(maxlen):
    d = vlib.scratch("size-")
    try:
        consts = dict(Toks={"0", "1", "5", "9", "B", "K", "M", "G", "T", "k", "x", "-", "SP", "B20", "FW1", "AR3"}, MaxLen=maxlen,
                      Values=SIZE_VALUES, CaseFile=os.path.join(d, "cases.ndjson"), ResultFile=os.path.join(d, "res.ndjson"))
        ncases, r = _gen_and_run("ByteSizeGen", "ByteSizeJudge", consts, "bytesize", d)
        m = re.search(r'<<\s*"SIZE-RESULT",\s*(\d+),\s*(\d+),\s*(\d+),(.*)>>\s*\n', r["out"], re.S)
        if not m:
            raise vlib.Inconclusive("size judge gave no result: %s" % r["out"][-2000:])
        sample = [json.loads(l) for i, l in enumerate(open(os.path.join(d, "res.ndjson"))) if i % 4001 == 0][:10]
        return {"cases": ncases, "bad_strings": int(m.group(2)), "bad_values": int(m.group(3)),
                "detail": " ".join(m.group(4).split())[:3000], "sample": sample}
    finally:
        shutil.rmtree(d, ignore_errors=True)


def parser_run(mode, cc_maxlen=3):
    d = vlib.scratch("inp-")
    try:
        consts = dict(CCToks={"max-age=", "0", "9", "B20", "-", "no-store", "No-Cache", ",", "SP", "=", "private", "x", ";", "max-age", "QUOTE"},
                      CCMaxLen=cc_maxlen, ExpForms="<- ExpFormsDef", PhcFields="<- PhcFieldsDef", Mode=mode,
                      CaseFile=os.path.join(d, "cases.ndjson"), ResultFile=os.path.join(d, "res.ndjson"))
        ncases, r = _gen_and_run("InputsGen", "InputsJudge", consts, mode, d)
        m = re.search(r'<<\s*"INPUT-RESULT",\s*(\d+),\s*(\d+),\s*(\d+),\s*(\d+),(.*)>>\s*\n', r["out"], re.S)
        if not m:
            raise vlib.Inconclusive("%s judge gave no result: %s" % (mode, r["out"][-2000:]))
        sample = [json.loads(l) for i, l in enumerate(open(os.path.join(d, "cases.ndjson"))) if i % 997 == 0][:8]
        return {"cases": ncases, "panics": int(m.group(2)), "valid_refused": int(m.group(3)), "invalid_accepted": int(m.group(4)),
                "detail": " ".join(m.group(5).split())[:3000], "sample": sample}
    finally:
        shutil.rmtree(d, ignore_errors=True)
