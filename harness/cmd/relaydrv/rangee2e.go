package main

import (
	"bufio"
	"bytes"
	"encoding/json"
	"fmt"
	"io"
	"net"
	"net/http"
	"os"
	"strconv"
	"strings"
	"time"
)

// Range end to end (spec/RangeSpec.tla): every enumerated Range value is sent, on a raw socket, for stored
// resources of the given sizes; the origin ignores Range, so every answer is cut (or refused) by the proxy.
// The outcome is recorded in the form RangeSpec.Allowed speaks of: 206 a b (Content-Range and body checked
// against the stored body), 416 (with "bytes */size"), 200 (full body), anything else verbatim.

var rangeTok = map[string]string{"SP": " ", "TAB": "\t", "B63": "9223372036854775807", "B64": "18446744073709551616"}

func renderRange(p string, toks []any) string {
	var b strings.Builder
	b.WriteString(p)
	for _, t := range toks {
		s, _ := t.(string)
		if r, ok := rangeTok[s]; ok {
			b.WriteString(r)
		} else {
			b.WriteString(s)
		}
	}
	return b.String()
}

func rangeBody(size int) []byte {
	b := make([]byte, size)
	for i := range b {
		b[i] = byte('a' + (i*7+i/26)%26)
	}
	return b
}

func runRangeE2E(dir, backend, in, out, sizes, transport string, origin416 bool) error {
	d := &driver{}
	d.open(dir, backend)
	defer d.close()
	var szs []int
	for _, s := range strings.Split(sizes, ",") {
		n, _ := strconv.Atoi(s)
		szs = append(szs, n)
	}
	// resources: /c<1000+size>/r ; the origin serves the body whatever Range says
	for _, sz := range szs {
		d.cases[1000+sz] = &Case{ID: 1000 + sz, Status: 200, Sbody: "range", RespItems: []Item{{W: "Cache-Control", V: "max-age=600"},
			{W: "Content-Type", V: "application/octet-stream"}, {W: "ETag", V: `"v1"`}, {W: "Last-Modified", V: rangeLM.Format(http.TimeFormat)}}}
	}
	if origin416 {
		// an origin that refuses every Range request (416 stating the size) and answers plain requests in full: with
		// retry_on_range_416 the proxy asks again without Range and serves the client from that answer
		d.osrv.Config.Handler = http.HandlerFunc(func(w http.ResponseWriter, r *http.Request) {
			var id int
			fmt.Sscanf(r.URL.Path, "/c%d/r", &id)
			body := rangeBodies[id]
			w.Header().Set("Content-Type", "application/octet-stream")
			if r.Header.Get("Range") != "" {
				w.Header().Set("Content-Range", fmt.Sprintf("bytes */%d", len(body)))
				w.WriteHeader(416)
				return
			}
			// (not storable: every request of the run reaches the origin, also those whose Range the proxy does not parse)
			w.Header().Set("Cache-Control", "no-store")
			w.Header().Set("ETag", `"v1"`)
			w.Header().Set("Last-Modified", rangeLM.Format(http.TimeFormat))
			w.Header().Set("Content-Length", strconv.Itoa(len(body)))
			w.Write(body)
		})
	}
	rangeBodies = map[int][]byte{}
	for _, sz := range szs {
		rangeBodies[1000+sz] = rangeBody(sz)
	}
	fh, err := os.Open(in)
	if err != nil {
		return err
	}
	defer fh.Close()
	of, err := os.Create(out)
	if err != nil {
		return err
	}
	defer of.Close()
	w := bufio.NewWriterSize(of, 1<<20)
	defer w.Flush()
	enc := json.NewEncoder(w)
	var conn net.Conn
	var br *bufio.Reader
	dial := func() error {
		if conn != nil {
			conn.Close()
		}
		if transport == "tunnel" {
			c, r, err := d.openTunnel()
			if err != nil {
				return err
			}
			conn, br = c, r
			return nil
		}
		c, err := net.DialTimeout("tcp", d.phost, 3*time.Second)
		if err != nil {
			return err
		}
		conn, br = c, bufio.NewReader(c)
		return nil
	}
	do := func(sz int, value string, withRange bool, ir string) (int, http.Header, []byte, error) {
		for attempt := 0; attempt < 2; attempt++ {
			if conn == nil {
				if err := dial(); err != nil {
					return 0, nil, nil, err
				}
			}
			var b bytes.Buffer
			if transport == "tunnel" {
				fmt.Fprintf(&b, "GET /c%d/r HTTP/1.1\r\nHost: %s\r\n", 1000+sz, d.ohost)
			} else {
				fmt.Fprintf(&b, "GET http://%s/c%d/r HTTP/1.1\r\nHost: %s\r\n", d.ohost, 1000+sz, d.ohost)
			}
			if withRange {
				fmt.Fprintf(&b, "Range: %s\r\n", value)
			}
			if v, ok := ifRangeValue(ir); ok {
				fmt.Fprintf(&b, "If-Range: %s\r\n", v)
			}
			b.WriteString("\r\n")
			conn.SetDeadline(time.Now().Add(5 * time.Second))
			if _, err := conn.Write(b.Bytes()); err != nil {
				conn.Close()
				conn = nil
				continue
			}
			resp, err := http.ReadResponse(br, &http.Request{Method: "GET"})
			if err != nil {
				conn.Close()
				conn = nil
				if attempt == 0 && err == io.EOF {
					continue // the kept-alive connection was closed between requests
				}
				return 0, nil, nil, err
			}
			body, err := io.ReadAll(resp.Body)
			if err != nil || resp.Close {
				conn.Close()
				conn = nil
			}
			if err != nil {
				return resp.StatusCode, resp.Header, body, err
			}
			return resp.StatusCode, resp.Header, body, nil
		}
		return 0, nil, nil, fmt.Errorf("could not send")
	}
	// put every resource into the store
	for _, sz := range szs {
		if st, _, _, err := do(sz, "", false, ""); err != nil || st != 200 {
			return fmt.Errorf("priming size %d: status %d err %v", sz, st, err)
		}
	}
	sc := bufio.NewScanner(fh)
	sc.Buffer(make([]byte, 1<<20), 1<<24)
	noAnswers := 0
	for sc.Scan() {
		var m map[string]any
		if err := json.Unmarshal(sc.Bytes(), &m); err != nil {
			return err
		}
		p, _ := m["p"].(string)
		t, _ := m["t"].([]any)
		value := renderRange(p, t)
		ir, _ := m["ir"].(string)
		for _, sz := range szs {
			if noAnswers >= 3 {
				break // the proxy has stopped answering: the rest would only time out
			}
			full := rangeBodies[1000+sz]
			st, h, body, err := do(sz, value, true, ir)
			if err != nil {
				noAnswers++
			}
			var o []any
			switch {
			case err != nil:
				o = []any{"panic", err.Error()}
			case st == 206:
				var a, b, tot int
				if n, _ := fmt.Sscanf(h.Get("Content-Range"), "bytes %d-%d/%d", &a, &b, &tot); n == 3 && tot == sz && a >= 0 && b < sz && a <= b &&
					bytes.Equal(body, full[a:b+1]) && h.Get("Content-Length") == strconv.Itoa(b-a+1) {
					o = []any{"206", a, b}
				} else {
					o = []any{"bad206", h.Get("Content-Range"), len(body)}
				}
			case st == 416:
				if h.Get("Content-Range") == fmt.Sprintf("bytes */%d", sz) {
					o = []any{"416"}
				} else {
					o = []any{"bad416", h.Get("Content-Range")}
				}
			case st == 200:
				if bytes.Equal(body, full) {
					o = []any{"200"}
				} else {
					o = []any{"bad200", len(body)}
				}
			default:
				o = []any{"status", st}
			}
			if ir == "" {
				ir = "none"
			}
			enc.Encode(map[string]any{"p": p, "t": t, "size": sz, "out": o, "v": value, "ir": ir})
		}
	}
	return sc.Err()
}

var rangeBodies map[int][]byte

// the stored representation's Last-Modified, and the If-Range forms of spec/RangeSpec.tla
var rangeLM = time.Date(2020, 1, 5, 7, 0, 0, 0, time.UTC)

func ifRangeValue(form string) (string, bool) {
	older, newer := rangeLM.Add(-24*time.Hour), rangeLM.Add(24*time.Hour)
	switch form {
	case "etag_match":
		return `"v1"`, true
	case "etag_other":
		return `"v2"`, true
	case "etag_unquoted":
		return "v1", true
	case "star":
		return "*", true
	case "etag_weak":
		return `W/"v1"`, true
	case "date_eq":
		return rangeLM.Format(http.TimeFormat), true
	case "date_older":
		return older.Format(http.TimeFormat), true
	case "date_older_850":
		return older.Format(time.RFC850), true
	case "date_older_asc":
		return older.Format(time.ANSIC), true
	case "date_nogmt":
		return strings.TrimSuffix(rangeLM.Format(http.TimeFormat), " GMT"), true
	case "date_garbage":
		return "yesterday", true
	case "date_eq_850":
		return rangeLM.Format(time.RFC850), true
	case "date_newer":
		return newer.Format(http.TimeFormat), true
	case "empty":
		return "", true
	}
	return "", false
}
