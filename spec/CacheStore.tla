---------------------------- MODULE CacheStore ----------------------------
(***************************************************************************)
(* Implementation-shaped specification of reservoir's entry store          *)
(* (cache/memory_cache.go, cache/file_cache.go, cache/cache_janitor.go).   *)
(*                                                                         *)
(* Granularity: one action per critical section that the Go code executes  *)
(* under a shard lock without waiting for anything outside the cache       *)
(* ("gate granularity").  A store is three kinds of step because it holds  *)
(* its shard lock while it pulls chunks from the caller's io.Reader:       *)
(*   StoreBegin (limit check, store-triggered eviction, lock, create)      *)
(*   StoreChunk* (one chunk copied)                                        *)
(*   StoreCommit | StoreAbort (map write, counters, unlock).               *)
(* Get/Delete/UpdateMeta are single steps (lock .. unlock).  A client      *)
(* that calls while the key's shard is held is "blocked" (Block) and       *)
(* performs its operation when the lock is free again.                     *)
(* A janitor cycle is JanScan, JanRemove(k)*, JanEnsure, JanEvictStep*, so *)
(* that client operations can land between the expiry scan and each        *)
(* removal and between the eviction snapshot and each candidate visit.     *)
(*                                                                         *)
(* Content is abstract but precise: a body is (key, version, nchunks) and  *)
(* chunk i of it is identifiable, exactly like the self-describing bodies  *)
(* the Go harness uses.  An "object" is a byte container (a []byte buffer  *)
(* in the memory backend, an inode in the file backend).                   *)
(*                                                                         *)
(* Deviations of the pinned tree from this design are explicit, named,     *)
(* and switched by the constant Dev (see DESIGN.md 2.4):                   *)
(*   "TruncateInPlace"      file backend re-creates the entry's path in    *)
(*                          place (os.Create) instead of temp+rename; a    *)
(*                          failed/empty overwrite removes the file but    *)
(*                          leaves the old map entry and the counters      *)
(*   "OverwriteNoSubtract"  commit adds the new size/count without         *)
(*                          subtracting the replaced entry                 *)
(*   "RemoveFreshAfterScan" the janitor removes a key found expired by the *)
(*                          scan without re-checking under the shard lock  *)
(***************************************************************************)
EXTENDS Integers, Sequences, FiniteSets, TLC

CONSTANTS
    NKeys,        \* keys are 1..NKeys
    NClients,     \* client processes are 1..NClients
    ShardOf,      \* <<s1,..,sNKeys>>  which shard lock guards a key
    MaxVer,       \* versions per key are 1..MaxVer (every store call supplies a new one)
    MaxChunks,    \* body length in chunks: 0..MaxChunks
    Backend,      \* "memory" | "file"
    Dev,          \* set of deviation names switched on
    MaxHandles,   \* reader handles that may be open at once
    MaxObj,       \* object (buffer / inode) ids
    InitLimit,    \* configured limit in chunks (the only size unit of the model)
    Limits,       \* values a run-time SetLimit may choose
    MemCap,       \* memory backend: the budget cap (min(limit, cap) is the store limit)
    TickMs,       \* model clock tick in ms (eviction priority = age*TickMs + Weight*size)
    Weight,       \* priority weight per chunk (100 when a chunk is 1 MiB, 0 when tiny)
    FailStores,   \* BOOLEAN: may a source reader fail part-way
    Janitor,      \* BOOLEAN: are janitor cycles / expiry part of this configuration
    UseClock,     \* BOOLEAN: track LastAccess order (needed only where eviction order matters)
    UpdVals,      \* subset of BOOLEAN: values UpdateMetadata may set the expired flag to ({} = no updates)
    Deletes,      \* BOOLEAN: are explicit Delete calls part of this configuration
    Blocking      \* BOOLEAN: may a call arrive while its shard is held (caller parks in Lock)

Keys    == 1..NKeys
Clients == 1..NClients
Free    == 0
Shards  == {ShardOf[k] : k \in Keys}
IsFile  == Backend = "file"
Has(d)  == d \in Dev

VARIABLES
    entries,   \* [Keys -> entry]   the map guarded by mu (metadata + bound object)
    path,      \* [Keys -> 0..MaxObj] file backend: which inode the entry's path names (0: no file)
    objs,      \* [1..MaxObj -> object]  byte containers
    bytes,     \* the byteSize counter
    count,     \* the entry-count metric
    dead,      \* ghost: [Keys -> set of versions replaced or removed] (NoResurrection)
    lock,      \* [Shards -> Free | client]
    pc,        \* [Clients -> "idle" | "copying" | "blocked"]
    op,        \* [Clients -> in-progress store record]
    pend,      \* [Clients -> the call a blocked client is waiting to start]
    handles,   \* [1..MaxHandles -> handle]
    clock,     \* logical access clock (LastAccess order)
    nextVer,   \* [Keys -> next version number a store will carry]
    jan,       \* janitor cycle state
    limit,     \* the configured limit as the cache currently follows it
    lastEv     \* ghost: description of the last eviction/cleanup decision (action properties)

storeVars == <<entries, path, bytes, count, dead>>
procVars  == <<lock, pc, op, pend>>
vars == <<entries, path, objs, bytes, count, dead, lock, pc, op, pend, handles, clock, nextVer, jan, limit, lastEv>>

NoEntry  == [present |-> FALSE, obj |-> 0, ver |-> 0, size |-> 0, exp |-> FALSE, la |-> 0]
NoObj    == [used |-> FALSE, k |-> 0, v |-> 0, n |-> 0, w |-> 0]
NoHandle == [open |-> FALSE, k |-> 0, obj |-> 0, pos |-> 0, ver |-> 0, size |-> 0, bad |-> FALSE, eof |-> FALSE]
NoOp     == [k |-> 0, v |-> 0, n |-> 0, obj |-> 0, failAt |-> -1]
NoEv     == [kind |-> "none"]
NoPend   == <<>>
JanIdle  == [phase |-> "idle", todo |-> {}, cands |-> {}, pre |-> <<>>, clk |-> 0, lim |-> 0, before |-> 0,
             removed |-> {}, skipped |-> {}]

Init ==
    /\ entries = [k \in Keys |-> NoEntry]
    /\ path    = [k \in Keys |-> 0]
    /\ objs    = [i \in 1..MaxObj |-> NoObj]
    /\ bytes   = 0
    /\ count   = 0
    /\ dead    = [k \in Keys |-> {}]
    /\ lock    = [s \in Shards |-> Free]
    /\ pc      = [p \in Clients |-> "idle"]
    /\ op      = [p \in Clients |-> NoOp]
    /\ pend    = [p \in Clients |-> NoPend]
    /\ handles = [h \in 1..MaxHandles |-> NoHandle]
    /\ clock   = 1
    /\ nextVer = [k \in Keys |-> 1]
    /\ jan     = JanIdle
    /\ limit   = InitLimit
    /\ lastEv  = NoEv

-----------------------------------------------------------------------------
(* Helpers                                                                   *)

Present     == {k \in Keys : entries[k].present}
RECURSIVE SumSizes(_, _)
SumSizes(ent, S) == IF S = {} THEN 0 ELSE LET k == CHOOSE x \in S : TRUE IN ent[k].size + SumSizes(ent, S \ {k})
StoredBytes == SumSizes(entries, Present)

\* objects referenced by anything: entry, path, open handle, in-progress store
Referenced ==
    {entries[k].obj : k \in Present} \cup {path[k] : k \in {x \in Keys : path[x] # 0}}
    \cup {handles[h].obj : h \in {x \in 1..MaxHandles : handles[x].open}}
    \cup {op[p].obj : p \in {x \in Clients : pc[x] = "copying"}}
FreeObjs == {i \in 1..MaxObj : ~objs[i].used}
\* unreferenced containers are reclaimed (garbage collector / last close of an unlinked inode).
\* GC must be the LAST conjunct of an action: it reads the primed referencing variables.
GC(o) == objs' = [i \in 1..MaxObj |-> IF o[i].used /\ i \notin Referenced' THEN NoObj ELSE o[i]]

Tick == IF UseClock THEN clock + 1 ELSE clock
StoreLimit == IF IsFile THEN limit ELSE IF MemCap < limit THEN MemCap ELSE limit
Target(l)  == (l * 8) \div 10

\* a client may start call c now (fresh call, or the call it was blocked on)
Ready(p, c) == pc[p] = "idle" \/ (pc[p] = "blocked" /\ pend[p] = c)
Finish(p)   == /\ pc' = [pc EXCEPT ![p] = "idle"]
               /\ pend' = [pend EXCEPT ![p] = NoPend]

-----------------------------------------------------------------------------
(* Eviction exactly as cache_janitor.go evict(): snapshot of candidates,     *)
(* priority = ms since last access + 100 per MiB, descending, the stop test  *)
(* precedes each candidate, TryLock per candidate.                           *)

Prio(e, clk) == (clk - e.la) * TickMs + Weight * e.size
MaxPrio(S, ent, clk) == CHOOSE x \in S : \A y \in S : Prio(ent[x], clk) >= Prio(ent[y], clk)

RECURSIVE EvictRun(_, _, _, _, _, _, _)
EvictRun(cands, ent, b, tgt, held, clk, acc) ==
    IF cands = {} \/ b <= tgt THEN [ent |-> ent, b |-> b, removed |-> acc.removed, skipped |-> acc.skipped]
    ELSE LET k == MaxPrio(cands, ent, clk)
         IN IF ShardOf[k] \in held
            THEN EvictRun(cands \ {k}, ent, b, tgt, held, clk, [acc EXCEPT !.skipped = @ \cup {k}])
            ELSE EvictRun(cands \ {k}, [ent EXCEPT ![k] = NoEntry], b - ent[k].size, tgt, held, clk,
                          [acc EXCEPT !.removed = @ \cup {k}])

HeldShards == {s \in Shards : lock[s] # Free}
Evict(l, held) == EvictRun(Present, entries, bytes, Target(l), held, clock, [removed |-> {}, skipped |-> {}])

EvRecord(kind, l, b0, b1, rem, skp, pre, clk, exempt) ==
    [kind |-> kind, limit |-> l, before |-> b0, after |-> b1, removed |-> rem, skipped |-> skp,
     pre |-> pre, clk |-> clk, exempt |-> exempt]

-----------------------------------------------------------------------------
(* Client operations                                                         *)

NewObj == CHOOSE i \in FreeObjs : \A j \in FreeObjs : i <= j

\* a call on key k arrives while k's shard is held: the caller parks in Lock().  The file
\* backend's limit check (and eviction) precedes its lock, so a blocked file store may already
\* have evicted: r is that eviction's outcome (BlockR), fixed to evict()'s result in Block.
BlockOver(c) == IsFile /\ c[1] = "store" /\ bytes >= StoreLimit
BlockR(p, c, r) ==
    /\ Blocking
    /\ pc[p] = "idle"
    /\ lock[ShardOf[c[2]]] # Free
    /\ c[1] = "store" => /\ nextVer[c[2]] <= MaxVer
                         /\ c[4] \in (IF FailStores THEN -1..(c[3]-1) ELSE {-1})
    /\ pc' = [pc EXCEPT ![p] = "blocked"]
    /\ pend' = [pend EXCEPT ![p] = c]
    /\ UNCHANGED <<lock, op, handles, clock, nextVer, jan, limit>>
    /\ IF BlockOver(c)
       THEN /\ lastEv' = EvRecord("store", StoreLimit, bytes, r.b, r.removed, r.skipped, entries, clock, {})
            /\ entries' = r.ent
            /\ bytes' = r.b
            /\ count' = count - Cardinality(r.removed)
            /\ dead' = [x \in Keys |-> IF x \in r.removed THEN dead[x] \cup {entries[x].ver} ELSE dead[x]]
            /\ path' = [x \in Keys |-> IF x \in r.removed THEN 0 ELSE path[x]]
            /\ GC(objs)
       ELSE UNCHANGED <<entries, path, objs, bytes, count, dead, lastEv>>

\* StoreBeginR(p,k,n,f,r): client p starts Cache(k, body(k, nextVer[k], n)); the source fails
\* after f chunks when f >= 0.  r is the outcome of the store-triggered eviction (if any):
\* [ent, b, removed, skipped].  StoreBegin fixes r to what evict() computes.
NoEvict == [ent |-> entries, b |-> bytes, removed |-> {}, skipped |-> {}]
StoreOver(p) == bytes >= StoreLimit /\ ~(IsFile /\ pc[p] = "blocked")
\* file backend evicts before taking its lock; memory backend evicts while holding it
StoreHeld(k) == IF IsFile THEN HeldShards ELSE HeldShards \cup {ShardOf[k]}
StoreBeginR(p, k, n, f, r) ==
    /\ Ready(p, <<"store", k, n, f>>)
    /\ pc[p] = "blocked" \/ nextVer[k] <= MaxVer    \* (a blocked store was admitted when it was issued)
    /\ lock[ShardOf[k]] = Free
    /\ FreeObjs # {}
    /\ f \in (IF FailStores THEN -1..(n-1) ELSE {-1})
    /\ LET v  == nextVer[k]
           over == StoreOver(p)
           refused == ~IsFile /\ over /\ r.b >= StoreLimit
           inplace == IsFile /\ Has("TruncateInPlace") /\ path[k] # 0 /\ k \notin r.removed
           o == IF inplace THEN path[k] ELSE NewObj
       IN /\ lastEv' = IF over THEN EvRecord("store", StoreLimit, bytes, r.b, r.removed, r.skipped, entries, clock,
                                             IF IsFile THEN {} ELSE {x \in Present : ShardOf[x] = ShardOf[k]})
                               ELSE NoEv
          /\ count' = count - Cardinality(r.removed)
          /\ bytes' = r.b
          /\ dead' = [x \in Keys |-> IF x \in r.removed THEN dead[x] \cup {entries[x].ver} ELSE dead[x]]
          /\ nextVer' = IF refused THEN nextVer ELSE [nextVer EXCEPT ![k] = v + 1]
          /\ entries' = r.ent
          /\ UNCHANGED <<handles, clock, jan, limit>>
          /\ IF refused
             THEN \* ErrCacheMemoryExceeded: nothing written, lock released again
                  /\ path' = [x \in Keys |-> IF x \in r.removed THEN 0 ELSE path[x]]
                  /\ Finish(p)
                  /\ UNCHANGED <<lock, op>>
                  /\ GC(objs)
             ELSE /\ path' = [x \in Keys |-> IF x \in r.removed THEN 0
                                             ELSE IF x = k /\ IsFile /\ Has("TruncateInPlace") THEN o
                                             ELSE path[x]]
                  /\ lock' = [lock EXCEPT ![ShardOf[k]] = p]
                  /\ pc' = [pc EXCEPT ![p] = "copying"]
                  /\ pend' = [pend EXCEPT ![p] = NoPend]
                  /\ op' = [op EXCEPT ![p] = [k |-> k, v |-> v, n |-> n, obj |-> o, failAt |-> f]]
                  /\ GC([objs EXCEPT ![o] = [used |-> TRUE, k |-> k, v |-> v, n |-> n, w |-> 0]])

StoreBegin(p, k, n, f) ==
    StoreBeginR(p, k, n, f, IF StoreOver(p) THEN Evict(StoreLimit, StoreHeld(k)) ELSE NoEvict)

Block(p, c) == BlockR(p, c, IF BlockOver(c) THEN Evict(StoreLimit, HeldShards) ELSE NoEvict)

StoreChunk(p) ==
    /\ pc[p] = "copying"
    /\ objs[op[p].obj].w < op[p].n
    /\ op[p].failAt # objs[op[p].obj].w
    /\ objs' = [objs EXCEPT ![op[p].obj].w = @ + 1]
    /\ UNCHANGED <<entries, path, bytes, count, dead, lock, pc, op, pend, handles, clock, nextVer, jan, limit, lastEv>>

\* the source reader returned an error after failAt chunks, or the body was empty on the
\* file backend (ErrCacheFileEmpty): the partial container is discarded, nothing else changes
AbortEff(p) ==
    LET k == op[p].k
    IN /\ IF IsFile /\ Has("TruncateInPlace")
          THEN path' = [path EXCEPT ![k] = 0]   \* os.Remove(fileName): the map entry is left behind
          ELSE path' = path
       /\ UNCHANGED <<entries, bytes, count, dead>>
       /\ lock' = [lock EXCEPT ![ShardOf[k]] = Free]
       /\ pc' = [pc EXCEPT ![p] = "idle"]
       /\ op' = [op EXCEPT ![p] = NoOp]
       /\ UNCHANGED <<pend, handles, clock, nextVer, jan, limit, lastEv>>
       /\ GC(objs)
StoreAbort(p) ==
    /\ pc[p] = "copying"
    /\ LET o == op[p].obj
           failed == op[p].failAt = objs[o].w
           empty  == IsFile /\ objs[o].w = op[p].n /\ op[p].n = 0 /\ op[p].failAt = -1
       IN failed \/ empty
    /\ AbortEff(p)

StoreCommit(p) ==
    /\ pc[p] = "copying"
    /\ LET o == op[p].obj
           k == op[p].k
           n == op[p].n
           old == entries[k]
       IN /\ objs[o].w = n
          /\ op[p].failAt = -1
          /\ ~(IsFile /\ n = 0)
          /\ entries' = [entries EXCEPT ![k] = [present |-> TRUE, obj |-> o, ver |-> op[p].v, size |-> n,
                                                exp |-> FALSE, la |-> clock]]
          /\ path' = IF IsFile THEN [path EXCEPT ![k] = o] ELSE path
          /\ IF Has("OverwriteNoSubtract") \/ ~old.present
             THEN /\ bytes' = bytes + n
                  /\ count' = count + 1
             ELSE /\ bytes' = bytes + n - old.size
                  /\ count' = count
          /\ dead' = IF old.present THEN [dead EXCEPT ![k] = @ \cup {old.ver}] ELSE dead
          /\ clock' = Tick
          /\ lock' = [lock EXCEPT ![ShardOf[k]] = Free]
          /\ pc' = [pc EXCEPT ![p] = "idle"]
          /\ op' = [op EXCEPT ![p] = NoOp]
          /\ UNCHANGED <<pend, handles, nextVer, jan, limit, lastEv>>
          /\ GC(objs)

\* Get(p,k): lookup under the shard lock; a hit opens the lowest free reader handle on the
\* entry's container
FreeHandles == {h \in 1..MaxHandles : ~handles[h].open}
GetBody(p, k) ==
    /\ Ready(p, <<"get", k>>)
    /\ Finish(p)
    /\ IF ~entries[k].present
       THEN UNCHANGED <<entries, handles, clock>>           \* ErrCacheEntryNotFound
       ELSE IF IsFile /\ path[k] = 0
       THEN UNCHANGED <<entries, handles, clock>>           \* ErrCacheFileRead (dangling entry)
       ELSE /\ FreeHandles # {}
            /\ LET h == CHOOSE x \in FreeHandles : \A y \in FreeHandles : x <= y
               IN handles' = [handles EXCEPT ![h] = [open |-> TRUE, k |-> k,
                               obj |-> IF IsFile THEN path[k] ELSE entries[k].obj,
                               pos |-> 0, ver |-> entries[k].ver, size |-> entries[k].size,
                               bad |-> FALSE, eof |-> FALSE]]
            /\ entries' = [entries EXCEPT ![k].la = clock]
            /\ clock' = Tick
    /\ UNCHANGED <<path, objs, bytes, count, dead, lock, op, nextVer, jan, limit, lastEv>>

Get(p, k) == lock[ShardOf[k]] = Free /\ GetBody(p, k)

\* one Read call on handle h: returns the next chunk of whatever the container holds now.
\* The handle goes "bad" as soon as it returns a chunk that is not chunk pos+1 of the body
\* announced by Get (ver,size), or EOF before size chunks.
Read(h) ==
    /\ handles[h].open
    /\ ~handles[h].eof
    /\ LET hd == handles[h]
           o  == objs[hd.obj]
       IN IF hd.pos < o.w
          THEN handles' = [handles EXCEPT ![h].pos = @ + 1,
                              ![h].bad = @ \/ o.k # hd.k \/ o.v # hd.ver \/ o.n # hd.size]
          ELSE handles' = [handles EXCEPT ![h].eof = TRUE, ![h].bad = @ \/ hd.pos # hd.size]
    /\ UNCHANGED <<entries, path, objs, bytes, count, dead, lock, pc, op, pend, clock, nextVer, jan, limit, lastEv>>

CloseH(h) ==
    /\ handles[h].open
    /\ handles' = [handles EXCEPT ![h] = NoHandle]
    /\ UNCHANGED <<entries, path, bytes, count, dead, lock, pc, op, pend, clock, nextVer, jan, limit, lastEv>>
    /\ GC(objs)

\* removal of k under its shard lock (Delete, janitor, eviction share deleteInternal/ensureRemove)
RemoveEff(k) ==
    /\ entries' = [entries EXCEPT ![k] = NoEntry]
    /\ path' = [path EXCEPT ![k] = 0]
    /\ bytes' = bytes - entries[k].size
    /\ count' = count - 1
    /\ dead' = [dead EXCEPT ![k] = @ \cup {entries[k].ver}]

Delete(p, k) ==
    /\ Ready(p, <<"delete", k>>)
    /\ lock[ShardOf[k]] = Free
    /\ Finish(p)
    /\ IF entries[k].present THEN RemoveEff(k)
       ELSE UNCHANGED <<entries, path, bytes, count, dead>>
    /\ UNCHANGED <<lock, op, handles, clock, nextVer, jan, limit, lastEv>>
    /\ GC(objs)

\* UpdateMetadata(k, Expires := past | future); also bumps LastAccess
UpdateMeta(p, k, e) ==
    /\ Ready(p, <<"update", k, e>>)
    /\ lock[ShardOf[k]] = Free
    /\ Finish(p)
    /\ IF entries[k].present
       THEN /\ entries' = [entries EXCEPT ![k].exp = e, ![k].la = clock]
            /\ clock' = Tick
       ELSE UNCHANGED <<entries, clock>>
    /\ UNCHANGED <<path, objs, bytes, count, dead, lock, op, handles, nextVer, jan, limit, lastEv>>

-----------------------------------------------------------------------------
(* Janitor cycle: cleanExpiredEntries (scan, then TryLock+remove per key), ensureCacheSize *)

JanScan ==
    /\ Janitor
    /\ jan.phase = "idle"
    \* (an entry is looked at under its shard lock, taken with TryLock: one that is in use is left for the next cycle)
    /\ jan' = [JanIdle EXCEPT !.phase = "removing", !.todo = {k \in Present : entries[k].exp /\ lock[ShardOf[k]] = Free}]
    /\ lastEv' = [kind |-> "scan", expired |-> {k \in Present : entries[k].exp /\ lock[ShardOf[k]] = Free}]
    /\ UNCHANGED <<entries, path, objs, bytes, count, dead, lock, pc, op, pend, handles, clock, nextVer, limit>>

JanRemove(k) ==
    /\ jan.phase = "removing"
    /\ k \in jan.todo
    /\ jan' = [jan EXCEPT !.todo = @ \ {k}]
    /\ UNCHANGED <<lock, pc, op, pend, handles, clock, nextVer, limit>>
    /\ IF lock[ShardOf[k]] # Free
       THEN /\ lastEv' = [kind |-> "skip", k |-> k]
            /\ UNCHANGED <<entries, path, bytes, count, dead, objs>>
       ELSE IF entries[k].present /\ (entries[k].exp \/ Has("RemoveFreshAfterScan"))
       THEN /\ lastEv' = [kind |-> "clean", k |-> k, wasExp |-> entries[k].exp]
            /\ RemoveEff(k)
            /\ GC(objs)
       ELSE /\ lastEv' = [kind |-> "keep", k |-> k]
            /\ UNCHANGED <<entries, path, bytes, count, dead, objs>>

\* ensureCacheSize: below the limit nothing happens; otherwise evict() snapshots and sorts.
\* (An eviction over an empty snapshot returns at once.)
JanEnsure ==
    /\ jan.phase = "removing"
    /\ jan.todo = {}
    /\ IF bytes >= limit /\ {k \in Present : lock[ShardOf[k]] = Free} # {}
       THEN \* (entries whose shard is held while the snapshot is taken are in use: not candidates)
            /\ jan' = [JanIdle EXCEPT !.phase = "evicting", !.cands = {k \in Present : lock[ShardOf[k]] = Free},
                                      !.skipped = {k \in Present : lock[ShardOf[k]] # Free},
                                      !.pre = entries, !.clk = clock, !.lim = limit, !.before = bytes]
            /\ lastEv' = NoEv
       ELSE /\ jan' = JanIdle
            /\ lastEv' = IF bytes >= limit
                          THEN EvRecord("cycle", limit, bytes, bytes, {}, Present, entries, clock, {})
                          ELSE NoEv
    /\ UNCHANGED <<entries, path, objs, bytes, count, dead, lock, pc, op, pend, handles, clock, nextVer, limit>>

\* one iteration of evict()'s candidate loop, visiting candidate k (the code visits in
\* descending priority order: JanEvictStep below).  The iteration that exhausts the candidates,
\* or whose stop test succeeds, also ends the eviction.
JanEvictVisit(k) ==
    /\ jan.phase = "evicting"
    /\ k \in jan.cands
    /\ UNCHANGED <<lock, pc, op, pend, handles, clock, nextVer, limit>>
    /\ LET stop    == bytes <= Target(jan.lim)
           skip    == ~stop /\ lock[ShardOf[k]] # Free
           remove  == ~stop /\ ~skip /\ entries[k].present
           rem2    == IF remove THEN jan.removed \cup {k} ELSE jan.removed
           skp2    == IF skip THEN jan.skipped \cup {k} ELSE jan.skipped
           b2      == IF remove THEN bytes - entries[k].size ELSE bytes
           last    == stop \/ jan.cands = {k}
       IN /\ IF remove THEN RemoveEff(k) ELSE UNCHANGED <<entries, path, bytes, count, dead>>
          /\ IF last
             THEN /\ jan' = JanIdle
                  /\ lastEv' = EvRecord("cycle", jan.lim, jan.before, b2, rem2, skp2, jan.pre, jan.clk,
                                        {x \in Keys : x \notin rem2 /\ entries[x] # jan.pre[x]})
             ELSE /\ jan' = [jan EXCEPT !.cands = @ \ {k}, !.removed = rem2, !.skipped = skp2]
                  /\ lastEv' = NoEv
          /\ GC(objs)
JanEvictStep == jan.phase = "evicting" /\ JanEvictVisit(MaxPrio(jan.cands, jan.pre, jan.clk))

\* the entry's lifetime elapses (environment; no access)
Expire(k) ==
    /\ Janitor
    /\ entries[k].present
    /\ ~entries[k].exp
    /\ entries' = [entries EXCEPT ![k].exp = TRUE]
    /\ UNCHANGED <<path, objs, bytes, count, dead, lock, pc, op, pend, handles, clock, nextVer, jan, limit, lastEv>>

SetLimit(l) ==
    /\ l \in Limits
    /\ l # limit
    /\ limit' = l
    /\ UNCHANGED <<entries, path, objs, bytes, count, dead, lock, pc, op, pend, handles, clock, nextVer, jan, lastEv>>

-----------------------------------------------------------------------------
Calls == {<<"get", k>> : k \in Keys} \cup (IF Deletes THEN {<<"delete", k>> : k \in Keys} ELSE {})
         \cup {<<"update", k, e>> : k \in Keys, e \in UpdVals}
         \cup {<<"store", k, n, f>> : k \in Keys, n \in 0..MaxChunks, f \in -1..(MaxChunks-1)}

Next ==
    \/ \E p \in Clients, k \in Keys, n \in 0..MaxChunks, f \in -1..(MaxChunks-1) : StoreBegin(p, k, n, f)
    \/ \E p \in Clients : StoreChunk(p) \/ StoreAbort(p) \/ StoreCommit(p)
    \/ \E p \in Clients, k \in Keys : Get(p, k) \/ (Deletes /\ Delete(p, k))
    \/ \E h \in 1..MaxHandles : Read(h) \/ CloseH(h)
    \/ \E p \in Clients, k \in Keys, e \in UpdVals : UpdateMeta(p, k, e)
    \/ \E p \in Clients, c \in Calls : Block(p, c)
    \/ \E k \in Keys : Expire(k) \/ JanRemove(k)
    \/ JanScan \/ JanEnsure \/ JanEvictStep
    \/ \E l \in Limits : SetLimit(l)

Spec == Init /\ [][Next]_vars

-----------------------------------------------------------------------------
(* Properties                                                                *)

Quiescent == /\ \A p \in Clients : pc[p] = "idle"
             /\ \A s \in Shards : lock[s] = Free

\* C12
CountersExact ==
    Quiescent => /\ bytes = StoredBytes
                 /\ count = Cardinality(Present)
                 /\ IsFile => \A k \in Keys : (path[k] # 0) = entries[k].present
CountersNonNegative == bytes >= 0 /\ count >= 0

\* C01: whatever a present entry is bound to is the complete body announced by its metadata,
\* and (file backend) it is what the path names, so a Get can actually return it
StoredComplete ==
    \A k \in Present :
        LET e == entries[k] IN
        \/ lock[ShardOf[k]] # Free     \* its shard is held: nobody can look it up right now
        \/ /\ objs[e.obj].used /\ objs[e.obj].k = k /\ objs[e.obj].v = e.ver
           /\ objs[e.obj].n = e.size /\ objs[e.obj].w = e.size
           /\ IsFile => path[k] = e.obj
ReadsUnmixed == \A h \in 1..MaxHandles : handles[h].open => ~handles[h].bad
NoResurrection == \A k \in Present : entries[k].ver \notin dead[k]

\* C13 as facts about the step that completed an eviction / cleanup decision (recorded in lastEv)
IsEvict == lastEv.kind \in {"store", "cycle"}
PrePresent == {x \in Keys : lastEv.pre[x].present}
Exempt == lastEv.skipped \cup lastEv.exempt
EvictOnlyWhenOver == IsEvict => lastEv.before >= lastEv.limit
EvictPost ==
    IsEvict => \/ lastEv.after <= Target(lastEv.limit)
               \/ PrePresent \subseteq lastEv.removed \cup Exempt
\* the size before the last removal was still above the target: some removed entry was needed
EvictStopsAtTarget ==
    IsEvict /\ lastEv.removed # {} /\ lastEv.exempt \subseteq lastEv.skipped =>
        \E k \in lastEv.removed : lastEv.after + lastEv.pre[k].size > Target(lastEv.limit)
\* dominance: nothing non-exempt survives while something both more recently used and not larger goes
EvictOrder ==
    IsEvict =>
        \A r \in lastEv.removed \ Exempt : \A s \in PrePresent \ (lastEv.removed \cup Exempt) :
            ~(lastEv.pre[r].la > lastEv.pre[s].la /\ lastEv.pre[r].size <= lastEv.pre[s].size)
CleanupRemovesOnlyExpired == lastEv.kind = "clean" => lastEv.wasExp

=============================================================================
