"""EventBus (C19): TLC check of spec/EventBus.tla, schedule generation, replay on the real event bus / ConfigProp."""
import json, os, shutil, time
import vlib

INV = ["UnsubNeverPanics", "ShutDownNotNotified", "OthersKeepNotifications", "FollowersHaveLatest"]


def mc(nl=3, fires=3, timeout=300, coverage=False):
    cfg = vlib.cfg_text(dict(NListeners=nl, MaxFires=fires, Dev=set()), spec="Spec", invariants=INV)
    r = vlib.tlc_check("EventBus", cfg, timeout=timeout, coverage=coverage)
    r["name"] = "eventbus_%dlisteners_%dfires" % (nl, fires)
    r["constants"] = dict(NListeners=nl, MaxFires=fires, Dev=[])
    return r


def negative_controls():
    out = []
    for dev, inv in (({"GoPerCall"}, "FollowersHaveLatest"), ({"IndexUnsub"}, "UnsubNeverPanics")):
        cfg = vlib.cfg_text(dict(NListeners=3, MaxFires=3, Dev=dev), spec="Spec", invariants=INV)
        r = vlib.tlc_check("EventBus", cfg, timeout=120)
        if inv not in r["violated"]:
            raise vlib.Inconclusive("EventBus with %s does not violate %s: the model no longer expresses C19" % (dev, inv))
        out.append({"deviation": sorted(dev), "violates": inv, "counterexample": r.get("trace_actions")})
    return out


def run(target, num, depth, seed, nl=3):
    cfg = vlib.cfg_text(dict(NListeners=nl, MaxFires=4, Dev={"GoPerCall"}, Depth=depth), spec="GenSpec", invariants=["PrintHist"])
    hists = vlib.tlc_simulate("EventBusGen", cfg, num + num // 2 + 2, depth, seed)[:num]
    return replay(target, hists, nl)


def replay(target, hists, nl=3):
    binp = vlib.go_build("eventdrv")
    d = vlib.scratch("event-")
    try:
        json.dump({"listeners": nl, "behaviours": hists}, open(os.path.join(d, "in.json"), "w"))
        rc, out, err, _ = vlib.run_driver(binp, ["-in", "in.json", "-out", "trace.ndjson", "-target", target], cwd=d, timeout=600)
        if rc != 0:
            raise vlib.Inconclusive("eventdrv failed: %s" % err[-1500:])
        tr = vlib.cfg_text(dict(TraceFile="trace.ndjson", NListeners=nl), spec="TraceSpec", postcondition="Report")
        r = vlib.tlc_validate("EventBusTrace", tr, os.path.join(d, "trace.ndjson"))
        lines = [json.loads(x) for x in open(os.path.join(d, "trace.ndjson"))]
        problems = []
        for b in r["allbad"]:
            ln = lines[b["line"] - 1]
            bi = ln.get("b")
            problems.append({"cats": b["cats"], "line": b["line"], "event": ln, "context": [x for x in lines[:b["line"]] if x.get("b") == bi][-10:],
                             "replay_input": {"target": target, "listeners": nl, "behaviours": [hists[bi - 1]]}})
        if r["consumed"] < r["total"]:
            ln = lines[r["consumed"]]
            problems.append({"cats": ["struct"], "line": r["consumed"] + 1, "event": ln, "context": [],
                             "replay_input": {"target": target, "listeners": nl, "behaviours": [hists[ln.get("b", 1) - 1]]}})
        kinds = {}
        for ln in lines:
            kinds[ln["a"]] = kinds.get(ln["a"], 0) + 1
        return {"target": target, "behaviours": len(hists), "lines": len(lines), "consumed": r["consumed"], "problems": problems,
                "kinds": kinds, "sample": [x for x in lines if x.get("b") == 1][:25]}
    finally:
        shutil.rmtree(d, ignore_errors=True)


def storm(rounds):
    """free-running rounds (fires concurrent with unsubscribes) on the real Event, judged at quiescence"""
    binp = vlib.go_build("eventdrv")
    d = vlib.scratch("storm-")
    try:
        json.dump({"listeners": 24, "behaviours": [[] for _ in range(rounds)]}, open(os.path.join(d, "in.json"), "w"))
        rc, out, err, _ = vlib.run_driver(binp, ["-in", "in.json", "-out", "trace.ndjson", "-target", "storm"], cwd=d, timeout=900)
        if rc != 0:
            raise vlib.Inconclusive("eventdrv storm failed: %s" % err[-1500:])
        lines = [json.loads(x) for x in open(os.path.join(d, "trace.ndjson"))]
        tr = vlib.cfg_text(dict(TraceFile="trace.ndjson"), spec="TraceSpec", postcondition="Report")
        r = vlib.tlc_validate("EventStormTrace", tr, os.path.join(d, "trace.ndjson"))
        problems = [{"cats": b["cats"], "line": b["line"], "event": lines[b["line"] - 1]} for b in r["allbad"]]
        return {"rounds": len(lines), "consumed": r["consumed"], "problems": problems, "sample": lines[:1]}
    finally:
        shutil.rmtree(d, ignore_errors=True)


def fire_walk_mc():
    """spec/EventFire.tla: Fire's unlocked walk against concurrent unsubscribes; copy-on-unsubscribe holds, in place is the negative control."""
    out = {}
    for copy in (True, False):
        cfg = vlib.cfg_text(dict(NListeners=4, CopyOnUnsub=copy), spec="Spec", invariants=["WalkReachesAllLive"])
        r = vlib.tlc_check("EventFire", cfg, timeout=120)
        out["copy_on_unsubscribe" if copy else "in_place_negative_control"] = {"complete": r.get("complete"), "violated": r.get("violated"), "distinct": r.get("distinct")}
    if not out["copy_on_unsubscribe"]["complete"]:
        raise vlib.Inconclusive("TLC did not complete EventFire: %s" % out)
    if "WalkReachesAllLive" not in str(out["in_place_negative_control"]["violated"]):
        raise vlib.Inconclusive("EventFire negative control (in-place unsubscribe) does not violate WalkReachesAllLive")
    return out
