\* C01 family: readers x writers on the file backend, failing sources, two keys on one shard
CONSTANTS
    NKeys = 1
    NClients = 2
    ShardOf <- Shard1
    MaxVer = 3
    MaxChunks = 2
    Backend = "file"
    Dev = {"TruncateInPlace"}
    MaxHandles = 2
    MaxObj = 5
    InitLimit = 100
    Limits = {100}
    MemCap = 100
    TickMs = 170
    Weight = 0
    FailStores = TRUE
    Janitor = FALSE
    UseClock = FALSE
SPECIFICATION Spec
INVARIANTS ReadsUnmixed
CHECK_DEADLOCK FALSE
CONSTRAINT ClockBound
VIEW View
