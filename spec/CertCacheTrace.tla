--------------------------- MODULE CertCacheTrace ---------------------------
(* Judges recorded runs of the real PrivateCA against CertCache: a line is a batch of concurrent    *)
(* GetCertForHost calls for one host ("get": returned serial indices and, per certificate, whether  *)
(* crypto/x509 found it valid for exactly that host, inside its validity period, chaining to the CA  *)
(* and matching its key), an expiry, or a malformed target that must be refused cleanly.             *)
EXTENDS Integers, Sequences, FiniteSets, TLC, Json, IOUtils
CONSTANTS TraceFile, Hosts
TraceLog == ndJsonDeserialize(TraceFile)
VARIABLES l, cached, dead, seen, bads
tvars == <<l, cached, dead, seen, bads>>
Line == TraceLog[l]
Is(a) == l <= Len(TraceLog) /\ Line.a = a
Serials == {Line.serials[i] : i \in 1..Len(Line.serials)}
Note(p) == /\ bads' = IF p # {} /\ Len(bads) < 40 THEN Append(bads, [line |-> l, cats |-> p]) ELSE bads
           /\ TLCSet(1, [l |-> l + 1, bads |-> bads'])
TReset == Is("reset") /\ cached' = [h \in Hosts |-> 0] /\ dead' = {} /\ seen' = {} /\ l' = l + 1 /\ Note({})
TGet ==
    /\ Is("get")
    /\ LET h == Line.host
           valid == cached[h] # 0 /\ cached[h] \notin dead
           fresh == Serials \ seen
           p == (IF \A i \in 1..Len(Line.ok) : Line.ok[i] THEN {} ELSE {"invalid_certificate"})
                \cup (IF Line.err THEN {"refused_valid_target"} ELSE {})
                \cup (IF "panicked" \in DOMAIN Line /\ Line.panicked THEN {"issuance_panicked"} ELSE {})
                \cup (IF valid /\ Serials # {cached[h]} THEN {"not_reused"} ELSE {})
                \cup (IF ~valid /\ ~(Serials \subseteq fresh) THEN {"stale_or_foreign_certificate"} ELSE {})
                \cup (IF Serials \cap dead # {} THEN {"expired_certificate_served"} ELSE {})
                \cup (IF Line.after \notin Serials THEN {"cache_holds_unserved_certificate"} ELSE {})
                \* what a client of the proxy is shown in the TLS handshake of a tunnel to that target
                \cup (IF "wire" \in DOMAIN Line /\ Line.wire_err THEN {"tunnel_handshake_failed"} ELSE {})
                \cup (IF "wire" \in DOMAIN Line /\ ~Line.wire_err /\ Line.wire # Line.after THEN {"presented_other_than_cached"} ELSE {})
       IN /\ cached' = [cached EXCEPT ![h] = Line.after]
          /\ seen' = seen \cup Serials
          /\ Note(p)
    /\ UNCHANGED dead /\ l' = l + 1
TExpire == /\ Is("expire") /\ dead' = dead \cup {cached[Line.host]} /\ UNCHANGED <<cached, seen>> /\ l' = l + 1 /\ Note({})
TBad == /\ Is("badtarget") /\ UNCHANGED <<cached, dead, seen>> /\ l' = l + 1
        \* (the property speaks of well-formed targets only: a malformed one may be refused or served, but must not panic)
        /\ Note(IF Line.res = "panic" THEN {"malformed_target_panic"} ELSE {})
TraceInit == l = 1 /\ cached = [h \in Hosts |-> 0] /\ dead = {} /\ seen = {} /\ bads = <<>> /\ TLCSet(1, [l |-> 1, bads |-> <<>>])
TraceNext == TReset \/ TGet \/ TExpire \/ TBad
TraceSpec == TraceInit /\ [][TraceNext]_tvars
Report == LET r == TLCGet(1) IN /\ PrintT(<<"TRACE-ALL", r.bads>>)
                                /\ PrintT(<<"TRACE-RESULT", r.l - 1, Len(TraceLog), [line |-> 0]>>)
=============================================================================
