------------------------------ MODULE RangeGen ------------------------------
EXTENDS RangeSpec
VARIABLE dummy
ASSUME WriteCases
Spec == dummy = 0 /\ [][FALSE]_dummy
=============================================================================
