----------------------------- MODULE RangeJudge -----------------------------
EXTENDS RangeSpec
VARIABLE dummy
ASSUME Judge
Spec == dummy = 0 /\ [][FALSE]_dummy
=============================================================================
