---------------------------- MODULE RelayJudge ----------------------------
EXTENDS Relay
VARIABLE dummy
ASSUME Judge
Spec == dummy = 0 /\ [][FALSE]_dummy
=============================================================================
