------------------------------- MODULE Relay -------------------------------
(***************************************************************************)
(* Reference semantics of relaying for C08 (and the single-exchange base   *)
(* of C10): what the origin must receive for a client request and what the *)
(* client must receive for an origin response, on both transports.         *)
(*                                                                         *)
(* A message is a method / status, a request target, a sequence of header  *)
(* items and a body kind.  A header item is                                *)
(*    [n: lower-case field name, w: spelling on the wire, v: value,        *)
(*     lists: field names this item nominates as hop-by-hop (Connection)]  *)
(* The Go driver (harness/cmd/relaydrv) writes the items verbatim on a raw *)
(* socket (client side) or through the header map with its exact spelling  *)
(* (origin side), records what arrived on the other side, and this module  *)
(* judges it:                                                              *)
(*   for every field name the vocabulary knows, the sequence of values     *)
(*   that arrived equals the sequence of values sent if the field is       *)
(*   end-to-end, and is empty if it is hop-by-hop (the standard list or    *)
(*   nominated by a Connection item);                                      *)
(*   method, raw path, raw query, status and body arrive unchanged.        *)
(* Fields outside the vocabulary (Date, Via, X-Cache, Age, ...) are not    *)
(* judged: the property allows the proxy to add its own.                   *)
(***************************************************************************)
EXTENDS Integers, Sequences, FiniteSets, TLC, Json, IOUtils, SequencesExt

CONSTANTS Transports,   \* subset of {"plain", "tunnel"}
          Slices,       \* which case slices to generate: subset of {"A","B","C","D","E","F"}
          CaseFile, ResultFile

Item(n, w, v) == [n |-> n, w |-> w, v |-> v, lists |-> {}]
ConnItem(v, names) == [n |-> "connection", w |-> "Connection", v |-> v, lists |-> names]

StdHop == {"connection", "proxy-connection", "keep-alive", "proxy-authenticate", "proxy-authorization", "te", "trailer",
           "transfer-encoding", "upgrade"}

-----------------------------------------------------------------------------
(* request vocabulary                                                        *)
ReqFeats == {"multi", "mixedcase", "conn_listed", "keepalive", "te", "upgrade", "proxyauth", "proxyconn", "auth", "ua", "ae_br",
             "ae_gzip", "cookie"}
ReqItems(f) ==
    CASE f = "multi"       -> << Item("x-multi", "X-Multi", "one"), Item("accept", "Accept", "text/a"),
                                 Item("x-multi", "X-Multi", "two"), Item("accept", "Accept", "text/b;q=0.5"),
                                 Item("x-multi", "x-multi", "three, with comma") >>
      [] f = "mixedcase"   -> << Item("x-mixed-case", "x-mIxEd-CaSe", "KeepMy CASE") >>
      [] f = "conn_listed" -> << ConnItem("x-hop-a, X-Hop-B", {"x-hop-a", "x-hop-b"}), Item("x-hop-a", "X-Hop-A", "1"),
                                 Item("x-hop-b", "x-hop-b", "2"), Item("x-not-hop", "X-Not-Hop", "stays") >>
      [] f = "keepalive"   -> << Item("keep-alive", "Keep-Alive", "timeout=5, max=100") >>
      [] f = "te"          -> << Item("te", "TE", "trailers") >>
      [] f = "upgrade"     -> << Item("upgrade", "Upgrade", "verif-proto/1") >>
      [] f = "proxyauth"   -> << Item("proxy-authorization", "Proxy-Authorization", "Basic dmVyaWY6dmVyaWY=") >>
      [] f = "proxyconn"   -> << Item("proxy-connection", "Proxy-Connection", "keep-alive") >>
      [] f = "auth"        -> << Item("authorization", "Authorization", "Bearer end-to-end-token") >>
      [] f = "ua"          -> << Item("user-agent", "User-Agent", "verif-client/1.0") >>
      [] f = "ae_br"       -> << Item("accept-encoding", "Accept-Encoding", "br") >>
      [] f = "ae_gzip"     -> << Item("accept-encoding", "Accept-Encoding", "gzip") >>
      [] f = "cookie"      -> << Item("cookie", "Cookie", "a=1; b=2") >>
\* (a request has at most one Accept-Encoding item)
ReqFeatOK(F) == ~({"ae_br", "ae_gzip"} \subseteq F)

Methods    == {"GET", "HEAD", "POST", "PUT", "DELETE", "OPTIONS", "PATCH"}
ReqBodies(m) == IF m \in {"POST", "PUT", "PATCH"} THEN {"none", "sized", "chunked", "large"}
                ELSE IF m \in {"DELETE", "OPTIONS"} THEN {"none", "sized"} ELSE {"none"}
Paths   == {"/plain/x", "/enc%2Fslash/x", "/sp%20ace", "/a/../b", "/UPPER/lower.TXT", "//double//slash", "/semi;param=1", "/pct%41"}
Queries == {"NONE", "a=1&b=2", "q=%26%3D%2F", "x=a+b&x=c", "flag"}

-----------------------------------------------------------------------------
(* response vocabulary                                                       *)
RespFeats == {"setcookie", "link", "vary", "mixedcase", "conn_listed", "connclose", "keepalive", "upgrade", "proxyauthn", "ctype",
              "cachectl", "gz"}
RespItems(f) ==
    CASE f = "setcookie"   -> << Item("set-cookie", "Set-Cookie", "a=1; Path=/"), Item("set-cookie", "Set-Cookie", "b=2; HttpOnly"),
                                 Item("set-cookie", "set-cookie", "c=3") >>
      [] f = "link"        -> << Item("link", "Link", "</a>; rel=preload"), Item("link", "Link", "</b>; rel=next") >>
      [] f = "vary"        -> << Item("vary", "Vary", "Accept"), Item("vary", "Vary", "X-Multi") >>
      [] f = "mixedcase"   -> << Item("x-resp-mixed", "x-ReSp-MiXeD", "Value With  Two Spaces") >>
      [] f = "conn_listed" -> << ConnItem("X-Rhop", {"x-rhop"}), Item("x-rhop", "X-Rhop", "1"), Item("x-rkeep", "X-Rkeep", "stays") >>
      [] f = "connclose"   -> << ConnItem("close", {}) >>
      [] f = "keepalive"   -> << Item("keep-alive", "Keep-Alive", "timeout=7") >>
      [] f = "upgrade"     -> << Item("upgrade", "Upgrade", "verif-proto/2") >>
      [] f = "proxyauthn"  -> << Item("proxy-authenticate", "Proxy-Authenticate", "Basic realm=\"origin\"") >>
      [] f = "ctype"       -> << Item("content-type", "Content-Type", "application/x-verif; charset=utf-8") >>
      [] f = "cachectl"    -> << Item("cache-control", "Cache-Control", "max-age=60, public") >>
      [] f = "gz"          -> << Item("content-encoding", "Content-Encoding", "gzip") >>   \* body bytes are then a gzip stream
Statuses   == {200, 201, 204, 301, 302, 307, 404, 410, 500, 503}
RespBodies(s, m) == IF s = 204 THEN {"empty"} ELSE {"empty", "sized", "chunked", "large"}
Redirect(s) == s \in {301, 302, 307}

-----------------------------------------------------------------------------
(* reference: what must arrive                                               *)
RECURSIVE ReqCat(_), RespCat(_)
ReqCat(fs)  == IF fs = <<>> THEN <<>> ELSE ReqItems(Head(fs)) \o ReqCat(Tail(fs))
RespCat(fs) == IF fs = <<>> THEN <<>> ELSE RespItems(Head(fs)) \o RespCat(Tail(fs))

Hop(items) == StdHop \cup UNION {items[i].lists : i \in 1..Len(items)}
\* values of field n that must arrive, in order
Arrive(items, n) == LET keep == SelectSeq(items, LAMBDA it : it.n = n /\ n \notin Hop(items))
                    IN [i \in 1..Len(keep) |-> keep[i].v]
ReqVocab  == {"x-multi", "accept", "x-mixed-case", "connection", "x-hop-a", "x-hop-b", "x-not-hop", "keep-alive", "te", "upgrade",
              "proxy-authorization", "proxy-connection", "authorization", "user-agent", "accept-encoding", "cookie", "trailer"}
RespVocab == {"set-cookie", "link", "vary", "x-resp-mixed", "x-rhop", "x-rkeep", "keep-alive", "upgrade", "proxy-authenticate",
              "content-type", "cache-control", "content-encoding", "location"}
\* (Connection itself is hop-by-hop, but each hop sets its own: a Connection field on the far side is judged only for
\*  not carrying the near side's tokens, which the driver reports as the pseudo field "connection-tokens-leaked")

-----------------------------------------------------------------------------
(* case generation                                                           *)
SmallSubsets(S) == {T \in SUBSET S : Cardinality(T) <= 2} \cup {S}
AllReq  == ReqFeats \ {"ae_br"}
Case(sl, tr, m, p, q, rf, rb, st, sf, sb) ==
    [slice |-> sl, tr |-> tr, method |-> m, path |-> p, query |-> q, rf |-> rf, rbody |-> rb, status |-> st, sf |-> sf, sbody |-> sb]
CasesA == {Case("A", tr, m, "/plain/x", "NONE", rf, rb, 200, {"ctype"}, "sized") :
              tr \in Transports, m \in Methods, rf \in {{}, AllReq}, rb \in {"none", "sized", "chunked", "large"}}
CasesB == {Case("B", tr, m, "/plain/x", "a=1&b=2", rf, IF m = "POST" THEN "sized" ELSE "none", 200, {"ctype"}, "sized") :
              tr \in Transports, m \in {"GET", "POST"}, rf \in SmallSubsets(ReqFeats)}
CasesC == {Case("C", tr, "GET", p, q, {"ua"}, "none", 200, {"ctype"}, "sized") : tr \in Transports, p \in Paths, q \in Queries}
CasesD == {Case("D", tr, m, "/plain/x", "NONE", {"ua"}, "none", st, sf, sb) :
              tr \in Transports, m \in {"GET", "HEAD", "POST"}, st \in Statuses, sf \in {{}, RespFeats \ {"gz"}},
              sb \in {"empty", "sized", "chunked", "large"}}
CasesE == {Case("E", tr, "GET", "/plain/x", "NONE", {"ua"}, "none", st, sf, sb) :
              tr \in Transports, st \in {200, 404}, sf \in SmallSubsets(RespFeats \ {"gz"}), sb \in {"sized", "chunked"}}
\* a client that asks for gzip itself gets the origin's gzip stream untouched
CasesF == {Case("F", tr, "GET", "/plain/x", "NONE", {"ua", "ae_gzip"}, "none", 200, {"ctype", "gz"} \cup x, sb) :
              tr \in Transports, x \in {{}, {"cachectl"}}, sb \in {"sized", "chunked"}}
\* an origin whose status line carries a number that is no status code (Go's HTTP client lets 000..099 through): it cannot be
\* relayed, and the client must still get a well-formed answer, a 5xx of the proxy's own
CasesG == {Case("G", tr, m, "/plain/x", "NONE", {"ua"}, "none", st, {}, "empty") : tr \in Transports, m \in {"GET", "HEAD"}, st \in {0, 99}}
Valid(c) == /\ ReqFeatOK(c.rf) /\ c.rbody \in ReqBodies(c.method) /\ c.sbody \in RespBodies(c.status, c.method)
Cases == {c \in (IF "A" \in Slices THEN CasesA ELSE {}) \cup (IF "B" \in Slices THEN CasesB ELSE {})
                \cup (IF "C" \in Slices THEN CasesC ELSE {}) \cup (IF "D" \in Slices THEN CasesD ELSE {})
                \cup (IF "E" \in Slices THEN CasesE ELSE {}) \cup (IF "F" \in Slices THEN CasesF ELSE {})
                \cup (IF "G" \in Slices THEN CasesG ELSE {}) : Valid(c)}
CaseSeq == SetToSeq(Cases)
Wire(items) == [i \in 1..Len(items) |-> [w |-> items[i].w, v |-> items[i].v]]
Loc(st) == IF Redirect(st) THEN << Item("location", "Location", "/redirect-target") >> ELSE <<>>
WriteCases == ndJsonSerialize(CaseFile, [i \in 1..Len(CaseSeq) |->
                  LET c == CaseSeq[i]
                      rfs == SetToSeq(c.rf)
                      sfs == SetToSeq(c.sf)
                  IN
                  [id |-> i, slice |-> c.slice, tr |-> c.tr, method |-> c.method, path |-> c.path, query |-> c.query,
                   rf |-> rfs, rbody |-> c.rbody, status |-> c.status, sf |-> sfs, sbody |-> c.sbody,
                   reqItems |-> Wire(ReqCat(rfs)), respItems |-> Wire(RespCat(sfs) \o Loc(c.status))]])

-----------------------------------------------------------------------------
(* judging: the case file is read back; one result line per case              *)
(*  [id, err, o_method, o_path, o_query, o_hdr: [name -> values], o_body,     *)
(*   c_status, c_hdr, c_body, h_status, h_hdr, h_body (second, possibly       *)
(*   stored, answer to the same GET; h_status = 0 if not asked)]              *)
CasesIn == ndJsonDeserialize(CaseFile)
Results == ndJsonDeserialize(ResultFile)
F(r, name, dflt) == IF name \in DOMAIN r THEN r[name] ELSE dflt
ReqOf(c)  == ReqCat(c.rf)
RespOf(c) == RespCat(c.sf) \o Loc(c.status)
\* a Content-Length the origin sent arrives unchanged (one it did not send may be supplied by the proxy)
ClOK(sent, got) == sent = "" \/ got = sent
\* requests arrive "unchanged": every field of the vocabulary, sent or not, must arrive exactly as sent
HdrBad(obs, items, vocab) == {n \in vocab \ {"connection"} : F(obs, n, <<>>) # Arrive(items, n)}
\* responses "carry every end-to-end header the origin sent": fields the origin sent are judged (the proxy may add
\* fields of its own, e.g. a Content-Type its HTTP library sniffs), hop-by-hop ones must not come through
Sent(items, n) == \E i \in 1..Len(items) : items[i].n = n
HdrBadResp(obs, items, vocab) == {n \in vocab \ {"connection"} : Sent(items, n) /\ F(obs, n, <<>>) # Arrive(items, n)}
\* the proxy's own response fields describe this exchange only: each appears once (a second X-Cache, Cache-Status or
\* proxy element in Via is left over from another answer of the same stored response)
OwnBad(obs) == {n \in {"x-cache", "cache-status"} : Len(F(obs, n, <<>>)) > 1}
               \cup (IF Cardinality({i \in 1..Len(F(obs, "via", <<>>)) : F(obs, "via", <<>>)[i] = "HTTP/1.1 reservoir"}) > 1 THEN {"via"} ELSE {})
WantBody(c) == IF c.method = "HEAD" THEN "empty" ELSE c.sbody
Cats(c, r) ==
    IF F(r, "err", "") # "" THEN {"no_answer"}
    ELSE IF c.status < 100 THEN (IF r.c_status \in 500..599 THEN {} ELSE {"resp_status"})
    ELSE (IF r.o_method = c.method THEN {} ELSE {"req_method"})
         \cup (IF r.o_path = c.path THEN {} ELSE {"req_path"})
         \cup (IF r.o_query = c.query THEN {} ELSE {"req_query"})
         \cup (IF HdrBad(r.o_hdr, ReqOf(c), ReqVocab) = {} THEN {} ELSE {"req_headers"})
         \cup (IF r.o_body = c.rbody THEN {} ELSE {"req_body"})
         \cup (IF r.c_status = c.status THEN {} ELSE {"resp_status"})
         \cup (IF HdrBadResp(r.c_hdr, RespOf(c), RespVocab) \cup OwnBad(r.c_hdr) = {} /\ ClOK(r.o_cl, r.c_cl) THEN {} ELSE {"resp_headers"})
         \cup (IF r.c_status # c.status \/ r.c_body = WantBody(c) THEN {} ELSE {"resp_body"})
         \cup (IF r.h_status = 0 THEN {}
               ELSE (IF r.h_status = c.status THEN {} ELSE {"hit_status"})
                    \cup (IF HdrBadResp(r.h_hdr, RespOf(c), RespVocab) \cup OwnBad(r.h_hdr) = {} /\ ClOK(r.o_cl, r.h_cl) THEN {} ELSE {"hit_headers"})
                    \cup (IF r.h_body = WantBody(c) THEN {} ELSE {"hit_body"}))
         \* the same request once more after the entry's lifetime has elapsed (revalidated with a 304 that repeats the fields)
         \cup (IF r.r_status = 0 THEN {}
               ELSE (IF r.r_status = c.status THEN {} ELSE {"reval_status"})
                    \cup (IF HdrBadResp(r.r_hdr, RespOf(c), RespVocab) \cup OwnBad(r.r_hdr) = {} /\ ClOK(r.o_cl, r.r_cl) THEN {} ELSE {"reval_headers"})
                    \cup (IF r.r_body = WantBody(c) THEN {} ELSE {"reval_body"}))
N == Len(Results)
CaseOf(i) == CasesIn[Results[i].id]
Bad == {i \in 1..N : Cats(CaseOf(i), Results[i]) # {}}
AllCats == UNION {Cats(CaseOf(i), Results[i]) : i \in Bad}
RespNamesBad(i) == OwnBad(Results[i].c_hdr) \cup OwnBad(Results[i].h_hdr) \cup OwnBad(Results[i].r_hdr) \cup
                   HdrBadResp(Results[i].c_hdr, RespOf(CaseOf(i)), RespVocab) \cup
                   (IF Results[i].h_status > 0 THEN HdrBadResp(Results[i].h_hdr, RespOf(CaseOf(i)), RespVocab) ELSE {}) \cup
                   (IF Results[i].r_status > 0 THEN HdrBadResp(Results[i].r_hdr, RespOf(CaseOf(i)), RespVocab) ELSE {})
Detail(i) == IF F(Results[i], "err", "") # ""
             THEN [id |-> Results[i].id, cats |-> SetToSeq(Cats(CaseOf(i), Results[i])), req |-> <<>>, resp |-> <<>>]
             ELSE [id |-> Results[i].id, cats |-> SetToSeq(Cats(CaseOf(i), Results[i])),
                   req |-> SetToSeq(HdrBad(Results[i].o_hdr, ReqOf(CaseOf(i)), ReqVocab)), resp |-> SetToSeq(RespNamesBad(i))]
BadSeq == SetToSeq(Bad)
Judge == PrintT(<<"RELAY-RESULT", N, Cardinality(Bad),
                  ToJson([k \in 1..(IF Len(BadSeq) < 400 THEN Len(BadSeq) ELSE 400) |-> Detail(BadSeq[k])])>>)
=============================================================================
