----------------------------- MODULE ProxyTrace -----------------------------
(***************************************************************************)
(* Trace validation (code -> specification) for Proxy.tla.                 *)
(* harness/cmd/proxydrv writes one line per step: the step, every request  *)
(* that reached the origin because of it ("opened", with the conditional   *)
(* headers classified against the validators the origin ever sent), every  *)
(* response a client received ("deliv", with the body identified by its    *)
(* self-describing content), the number of clients waiting in a flight.    *)
(* Each line is explained by the Proxy action it names; differences        *)
(* between what the real proxy did and what the specification prescribes   *)
(* are recorded (first one only) with the properties they contradict.      *)
(***************************************************************************)
EXTENDS MCProxy, Json, IOUtils

CONSTANTS TraceFile, BodyLen
TraceLog == ndJsonDeserialize(TraceFile)

VARIABLES l, bad, bads


F(r, name, dflt) == IF name \in DOMAIN r THEN r[name] ELSE dflt
Line == TraceLog[l]
Is(a) == l <= Len(TraceLog) /\ Line.a = a
Deliv  == F(Line, "deliv", <<>>)
Opened == F(Line, "opened", <<>>)
DelivFor(c)  == {i \in 1..Len(Deliv) : Deliv[i].c = c}
OpenedFor(c) == {i \in 1..Len(Opened) : Opened[i].c = c}
Obs(c) == Deliv[CHOOSE i \in DelivFor(c) : TRUE]
Opn(c) == Opened[CHOOSE i \in OpenedFor(c) : TRUE]

Tick == 10
\* does the real store hold an entry for resource r after this step, and of which version?
ObservedStored(r) == Line.stored[ToString(r)]
ObservedVer(r) == Line.storedVer[ToString(r)]
\* was client c a follower of a flight when this step began?
WasFollower(c) == creq[c].st = "wait"

\* categories for one expected delivery m (a record of last')
DelivCats(m) ==
    \* (an answer that never comes is also a request that does not complete: C14)
    IF DelivFor(m.c) = {} THEN (IF WasFollower(m.c) THEN {"C05", "C09", "C14"} ELSE {"C09", "C14"})
    ELSE LET o == Obs(m.c)
             r == o.r
             okStatus == o.status = m.status
             wantLen == IF m.status = 206 THEN 32 ELSE BodyLen
             wantOff == IF m.status = 206 THEN 16 ELSE 0
             \* (an empty body identifies nothing: its version is judged through the metadata only)
             bodyOK == IF wantLen = 0 THEN o.blen = 0 /\ ~o.trunc
                       ELSE /\ o.bodyOK /\ o.bk = r /\ o.bv = m.ver /\ o.blen = wantLen /\ o.off = wantOff
                            \* (a length that is announced must be right; a streamed answer announces none)
                            /\ ~o.trunc /\ o.clen \in {wantLen, -1}
             metaOK == o.over = ToString(m.ver)
         IN (IF okStatus THEN {}
             ELSE IF o.status >= 500 \/ o.status = 0
                  THEN (IF WasFollower(m.c) THEN {"C05", "C09"} ELSE {"C09"})
                       \* no well-formed response at all (connection dropped: the handler panicked or gave up)
                       \cup (IF o.status = 0 THEN {"C16"} ELSE {})
                  ELSE {"C08"})
            \cup (IF ~okStatus \/ m.status \notin {200, 206} \/ creq[m.c].kind = "head" THEN {}
                  ELSE IF bodyOK /\ metaOK THEN {}
                  \* (a wrong body handed out by a flight that several clients shared is also a coalescing failure)
                  ELSE IF m.src = "store" THEN (IF WasFollower(m.c) \/ Cardinality(last') > 1 THEN {"C01", "C05"} ELSE {"C01"})
                  ELSE {"C08"})
            \* (a body that ends in a read error is an answer whose connection was dropped half-way: the origin's good
            \* answer did not reach the client -- C09 as well as whatever the missing bytes mean above)
            \cup (IF okStatus /\ m.status \in {200, 206} /\ creq[m.c].kind # "head" /\ o.trunc THEN {"C09"} ELSE {})
            \cup (IF okStatus /\ m.label # "ANY" /\ m.status \in {200, 206} /\ ((o.xcache = "HIT") # (m.label = "HIT"))
                  THEN {"C03"} ELSE {})
            \cup (IF okStatus /\ m.label \in {"HIT", "REVALIDATED"} /\ m.src = "store" /\
                     \* (real seconds that went by since the behaviour began widen the window)
                     \* and HTTP dates (Date, Expires) have whole-second granularity: one more second
                     ~(/\ o.age >= Tick * m.age /\ o.age <= Tick * m.age + F(Line, "elapsed", 1) + 1
                       /\ o.ttl >= Tick * m.ttl - F(Line, "elapsed", 1) - 1 /\ o.ttl <= Tick * m.ttl)
                  THEN {"C03"} ELSE {})

\* a delivery the specification does not make in this step
ExtraCats(c) ==
    LET o == Obs(c)
        r == o.r
    IN IF o.status \in {200, 206} /\ (o.xcache = "HIT" \/ (OpenedFor(c) = {} /\ creq'[c].st = "origin"))
       THEN (IF store[r].present /\ ~Fresh(store[r]) THEN {"C03"} ELSE {"C04"})
       ELSE IF WasFollower(c) \/ creq'[c].st = "wait" THEN {"C05", "C09"}
       ELSE {"C09"}

\* contacts the specification opens (or re-opens) in this step
\* (rxv: the contact answered by the current reply step, 0 otherwise)
NewContacts(rxv) == {x \in 1..MaxX : contacts'[x].open /\ contacts'[x].c # 0 /\ (contacts'[x] # contacts[x] \/ x = rxv)}
ContactCats(x) ==
    LET ct == contacts'[x]
        c == ct.c
    IN IF OpenedFor(c) = {}
       THEN (IF DelivFor(c) # {} /\ Obs(c).status \in {200, 206}
             THEN (IF store[ct.r].present THEN {"C03"} ELSE {"C04"})   \* answered from the store instead of asking
             ELSE IF DelivFor(c) # {} THEN {"C09"}
             \* neither an origin contact nor an answer: the request is stuck inside the proxy
             ELSE {"C05", "C09", "C14"})
       ELSE LET o == Opn(c)
                wantINM == IF ct.inm = "stored" THEN "stored:" \o ToString(ct.ver) ELSE "absent"
                inmOK == IF ct.reval THEN o.inm = wantINM ELSE o.inm \in {"absent"} \/ (creq'[c].cond = "bad")
                imsOK == IF ct.reval
                         THEN (IF ct.ims = "stored" THEN o.ims = "stored:" \o ToString(ct.ver) ELSE o.ims # "client")
                         ELSE o.ims = "absent" \/ creq'[c].cond = "bad"
                reqOK == /\ o.r = ct.r
                         /\ o.method = (CASE ct.kind = "head" -> "HEAD" [] ct.kind = "post" -> "POST" [] OTHER -> "GET")
                         /\ (ct.kind = "range") = (o.range # "")
                \* the re-fetch after a 304 for an entry that has vanished must be unconditional, or the client is answered
                \* with an error (C09) although the origin is fine
                vanishedRefetch == Is("reply") /\ Line.status = 304 /\ ~store[ct.r].present
                \* an entry whose data cannot be opened must not be revalidated either: a 304 would leave nothing to serve
                lostEntry == store[ct.r].present /\ store[ct.r].lost
            IN (IF inmOK /\ imsOK /\ ~o.ifmatch THEN {} ELSE IF vanishedRefetch \/ lostEntry THEN {"C06", "C09"} ELSE {"C06"})
               \cup (IF reqOK THEN {} ELSE {"C08"})
\* a request at the origin that the specification does not send
UnexpectedOpenCats(i, rxv) ==
    LET o == Opened[i] IN
    IF \E x \in NewContacts(rxv) : contacts'[x].c = o.c THEN {}
    \* the fetch of a flight whose leader has left goes on without an owner; when it is re-opened (its entry
    \* vanished during revalidation) the request still carries the departed client's name and must be unconditional
    ELSE IF \E x \in 1..MaxX : /\ contacts'[x].open /\ contacts'[x].c = 0 /\ contacts'[x].oc = o.c
                                /\ (contacts'[x] # contacts[x] \/ x = rxv)
    \* (an unparseable If-Modified-Since of the departed client is not a validator and travels with its request)
    THEN (IF o.inm = "absent" /\ o.ims \in {"absent", "client"} THEN {} ELSE {"C06"})
    ELSE IF WasFollower(o.c) \/ creq'[o.c].st = "wait" THEN {"C05"}
    ELSE IF \E m \in last' : m.c = o.c /\ m.label = "HIT" THEN {"C04"}
    ELSE {"C05"}

\* the proxy's own request counters (dashboard): every client request is counted exactly once and every request that
\* reached the origin is counted.  Not one of the listed properties: a mismatch is reported as a note (category "metrics").
MetricCats ==
    IF "metrics" \notin DOMAIN Line \/ ~F(Line, "settled", TRUE) THEN {}
    \* (upstream_requests counts attempts: a departed client's own fetch is counted although it never leaves the proxy)
    ELSE IF Line.metrics.upstream >= Line.ohits /\ Line.metrics.http = Line.metrics.sent THEN {} ELSE {"metrics"}

WaitingCats ==
    IF F(Line, "settled", TRUE) /\ Line.waiting = Cardinality({c \in Clients : creq'[c].st = "wait"}) THEN {}
    ELSE IF ~F(Line, "settled", TRUE) THEN {"C05", "C09", "C14"} ELSE {"C05"}

RECURSIVE UnionAll(_)
UnionAll(S) == IF S = {} THEN {} ELSE LET x == CHOOSE y \in S : TRUE IN x \cup UnionAll(S \ {x})

\* is what the real store holds for each resource what the specification's store holds?
StoredCats ==
    UnionAll({IF ObservedStored(r) = store'[r].present /\ (store'[r].present => ObservedVer(r) = store'[r].ver)
              THEN {} ELSE {"C04"} : r \in Res})

StepCats0(rxv) ==
    IF StoredCats # {} THEN StoredCats ELSE
    UnionAll({DelivCats(m) : m \in last'})
    \cup UnionAll({ExtraCats(Deliv[i].c) : i \in {j \in 1..Len(Deliv) : ~\E m \in last' : m.c = Deliv[j].c}})
    \cup UnionAll({ContactCats(x) : x \in NewContacts(rxv)})
    \cup UnionAll({UnexpectedOpenCats(i, rxv) : i \in 1..Len(Opened)})
    \cup WaitingCats
    \cup MetricCats

\* whatever goes wrong in the step that answers a revalidation (store not renewed / not replaced, old body served,
\* wrong label) also concerns C06
StepCats(rxv) == LET c == StepCats0(rxv) IN
                 IF c # {} /\ c # {"metrics"} /\ rxv # 0 /\ contacts[rxv].reval THEN c \cup {"C06"} ELSE c

tvars == <<vars, l, bad, bads>>
ConsumeX(rxv) ==
    /\ l' = l + 1
    /\ LET c == StepCats(rxv)
       IN bad' = IF bad.line = 0 /\ c # {}
                 THEN [line |-> l, cats |-> c, m_last |-> last', m_store |-> store', m_creq |-> creq', m_now |-> now']
                 ELSE bad
    /\ bads' = IF bad.line = 0 /\ bad'.line # 0 /\ Len(bads) < 40 THEN Append(bads, [line |-> bad'.line, cats |-> bad'.cats]) ELSE bads
    /\ TLCSet(1, [l |-> l + 1, bad |-> IF Len(bads') > 0 /\ bad'.line # bads'[1].line THEN TLCGet(1).bad ELSE bad', bads |-> bads'])
    /\ TLCSet(2, [creq |-> creq', open |-> {<<x, contacts'[x]>> : x \in {y \in 1..MaxX : contacts'[y].open}}, flight |-> flight',
                  store |-> store', origin |-> origin', now |-> now'])
Consume == ConsumeX(0)
Skip == l' = l + 1 /\ UNCHANGED <<vars, bad, bads>> /\ TLCSet(1, [l |-> l + 1, bad |-> TLCGet(1).bad, bads |-> bads])

TReset ==
    /\ Is("reset")
    /\ now' = 0 /\ store' = [r \in Res |-> NoEntry] /\ flight' = [r \in Res |-> NoFlight]
    /\ origin' = [r \in Res |-> [ver |-> Line.origin[r].ver, form |-> Line.origin[r].form, val |-> Line.origin[r].val]]
    /\ creq' = [c \in Clients |-> Idle] /\ contacts' = [x \in 1..MaxX |-> NoContact] /\ nextX' = 1
    /\ served' = [r \in Res |-> {}] /\ last' = {} /\ pol' = [icc |-> IgnoreCC, fd |-> ForceDefault, age |-> DefaultAge]
    /\ l' = l + 1 /\ bad' = [line |-> 0] /\ UNCHANGED bads /\ TLCSet(1, [l |-> l + 1, bad |-> TLCGet(1).bad, bads |-> bads])

\* once a behaviour has shown a difference, schedule and reality have parted: its remaining lines
\* are not judged (the next behaviour starts at the next "reset")
Judging == bad.line = 0
TAfterBad == l <= Len(TraceLog) /\ ~Judging /\ Line.a # "reset" /\ Skip
\* the contact a reply line addresses: named by the client that caused it, the resource, the kind
IsContact(y) == contacts[y].open /\ contacts[y].oc = Line.c /\ contacts[y].r = Line.r /\ contacts[y].kind = Line.kind
TInit == Is("init") /\ Judging /\ Skip
TNoop == l <= Len(TraceLog) /\ Judging /\ F(Line, "res", "") \in {"busy", "idle"} /\ Skip
\* the behaviour wanted the origin to answer a request that is not there: legitimate only if the
\* specification has no such contact either (schedule and reality diverged earlier)
TNoContact ==
    /\ Is("reply") /\ Judging /\ F(Line, "res", "") = "nocontact"
    /\ ~\E y \in 1..MaxX : IsContact(y)
    /\ Skip

TSend ==
    /\ Is("send") /\ Judging /\ F(Line, "res", "") = ""
    /\ Send(Line.c, Line.r, Line.kind, Line.cond)
    /\ Consume

TReply ==
    /\ Is("reply") /\ Judging /\ F(Line, "res", "") = ""
    /\ \E y \in 1..MaxX : IsContact(y)
    /\ LET x == CHOOSE y \in 1..MaxX : IsContact(y)
           ct == contacts[x]
           is200 == Line.status = 200 /\ ct.kind \in {"get", "range", "retry"}
           newlyStored == ObservedStored(ct.r) /\ ObservedVer(ct.r) = origin[ct.r].ver /\ Line.storedNew[ToString(ct.r)]
           st == IF ~is200 THEN FALSE
                 ELSE IF Storable(origin[ct.r].form) = "either" THEN newlyStored
                 ELSE IF (~ct.leader /\ ct.kind = "get") \/ StoreMayRefuse THEN newlyStored /\ Storable(origin[ct.r].form) = "yes"
                 ELSE Storable(origin[ct.r].form) = "yes"
           \* did the leader relay this answer (a delivery for it is on the line) or fetch its own?
           lr == ct.leader /\ ct.kind = "get" /\ DelivFor(ct.c) = {}
       IN Reply(x, Line.status, st, lr)
    /\ ConsumeX(CHOOSE y \in 1..MaxX : IsContact(y))

TShift  == Is("shift") /\ Judging /\ Shift(Line.d) /\ Consume
TEvict  == /\ Is("evict") /\ Judging
           /\ IF store[Line.r].present THEN Evict(Line.r) ELSE (UNCHANGED <<now, origin, store, flight, creq, contacts, nextX, served>> /\ last' = {})
           /\ Consume
TUnlink == /\ Is("unlink") /\ Judging
           \* ("nofile": there was nothing to remove; then the specification must not hold an intact entry either)
           /\ (F(Line, "res", "") = "nofile") => ~(store[Line.r].present /\ ~store[Line.r].lost)
           \* ("skipped": the driver left the file alone because a request or contact for the resource was open)
           /\ IF store[Line.r].present /\ ~store[Line.r].lost /\ Unlinks /\ F(Line, "res", "") # "skipped" THEN Unlink(Line.r)
              ELSE (UNCHANGED <<now, origin, store, flight, creq, contacts, nextX, served>> /\ last' = {})
           /\ Consume
TChange == Is("ochange") /\ Judging /\ OriginChange(Line.r, Line.form, Line.val) /\ Consume
TDisc   == /\ Is("disconnect") /\ Judging /\ F(Line, "res", "") = ""
           /\ Disconnect(Line.c) /\ Consume

TraceInit ==
    /\ now = 0 /\ store = [r \in Res |-> NoEntry] /\ flight = [r \in Res |-> NoFlight]
    /\ origin = [r \in Res |-> [ver |-> 1, form |-> "none", val |-> "none"]]
    /\ creq = [c \in Clients |-> Idle] /\ contacts = [x \in 1..MaxX |-> NoContact] /\ nextX = 1
    /\ served = [r \in Res |-> {}] /\ last = {} /\ pol = [icc |-> IgnoreCC, fd |-> ForceDefault, age |-> DefaultAge]
    /\ l = 1 /\ bad = [line |-> 0] /\ bads = <<>> /\ TLCSet(1, [l |-> 1, bad |-> [line |-> 0], bads |-> <<>>])
    /\ TLCSet(2, "init")
\* the driver has set the two config cells (the line carries the values it wrote); a line that repeats the values in force
\* (reality never diverges here: the driver always executes the step) changes nothing
TPolicy == /\ Is("policy") /\ Judging
           /\ IF <<Line.icc, Line.fd, Line.age>> # <<pol.icc, pol.fd, pol.age>> THEN SetPolicy(Line.icc, Line.fd, Line.age)
              ELSE (UNCHANGED <<now, origin, store, flight, creq, contacts, nextX, served, pol>> /\ last' = {})
           /\ Consume
TraceNext == TReset \/ TPolicy
             \/ ((TAfterBad \/ TInit \/ TNoop \/ TNoContact \/ TSend \/ TReply \/ TShift \/ TEvict \/ TUnlink \/ TChange \/ TDisc) /\ UNCHANGED pol)
TraceSpec == TraceInit /\ [][TraceNext]_tvars
Report == LET r == TLCGet(1) IN /\ PrintT(<<"TRACE-DBG", TLCGet(2)>>)
                                /\ PrintT(<<"TRACE-ALL", r.bads>>)
                                /\ PrintT(<<"TRACE-RESULT", r.l - 1, Len(TraceLog), r.bad>>)
=============================================================================
