------------------------------ MODULE ByteSize ------------------------------
(***************************************************************************)
(* Reference grammar and value of size strings (C17, C16):                  *)
(*   size  ::= digit+ unit        unit ::= B | K | M | G | T                *)
(*   value ::= digits * multiplier(unit), multipliers are powers of 1024    *)
(* and of the textual form written for a byte count: whatever is written    *)
(* must read back to exactly that count.                                    *)
(* Strings are token sequences; "B20" is twenty nines (does not fit 63 bits)*)
(* TLC integers are 32 bit, so values are compared as (quotient, remainder) *)
(* by the unit, which the driver computes from the parsed value.            *)
(***************************************************************************)
EXTENDS Integers, Sequences, FiniteSets, TLC, Json, IOUtils, SequencesExt

CONSTANTS Toks, MaxLen, Values, CaseFile, ResultFile

Digits == {"0", "1", "5", "9"}
Units  == {"B", "K", "M", "G", "T"}
DVal(t) == CASE t = "0" -> 0 [] t = "1" -> 1 [] t = "5" -> 5 [] t = "9" -> 9 [] OTHER -> 0
RECURSIVE Val(_)
Val(s) == IF s = <<>> THEN 0 ELSE Val(SubSeq(s, 1, Len(s) - 1)) * 10 + DVal(s[Len(s)])

WellFormed(s) == /\ Len(s) >= 2
                 /\ s[Len(s)] \in Units
                 /\ \A i \in 1..(Len(s) - 1) : s[i] \in Digits
\* well-formed but too large for a 63-bit byte count ("B20" never fits; TLC cannot compute the rest,
\* so only strings of small digits are given an exact expectation)
Exact(s) == WellFormed(s) /\ Len(s) <= 5

RECURSIVE SeqsUpTo(_)
SeqsUpTo(n) == IF n = 0 THEN {<<>>} ELSE LET S == SeqsUpTo(n - 1) IN S \cup {Append(s, t) : s \in {x \in S : Len(x) = n - 1}, t \in Toks}

StrCases == SetToSeq(SeqsUpTo(MaxLen))
ValCases == SetToSeq(Values)
\* byte counts beyond 32 bits are given as a small count of a unit (the driver multiplies): up to 2^62
ScaledNs == {1, 2, 3, 5, 1023, 1024, 1025, 2048, 4096, 1048575, 1048576, 4194304, 8388607}
ScaledCases == SetToSeq({[n |-> n, unit |-> u] : n \in ScaledNs, u \in Units})
\* durations (cleanup interval, default lifetime, ...): a count of a time unit, written to JSON and read back
DurNs == {0, 1, 2, 59, 60, 61, 90, 999, 1000, 1500, 3600, 86400}
DurUnits == {"ns", "us", "ms", "s", "m", "h"}
DurCases == SetToSeq({[n |-> n, unit |-> u] : n \in DurNs, u \in DurUnits})
NBase == Len(StrCases) + Len(ValCases) + Len(ScaledCases)
WriteCases == ndJsonSerialize(CaseFile,
    [i \in 1..(NBase + Len(DurCases)) |->
        IF i > NBase THEN [id |-> i, dn |-> DurCases[i - NBase].n, dunit |-> DurCases[i - NBase].unit] ELSE
        IF i <= Len(StrCases) THEN [id |-> i, s |-> StrCases[i], unit |-> IF StrCases[i] # <<>> THEN StrCases[i][Len(StrCases[i])] ELSE ""]
        ELSE IF i <= Len(StrCases) + Len(ValCases) THEN [id |-> i, n |-> ValCases[i - Len(StrCases)]]
        ELSE [id |-> i, sn |-> ScaledCases[i - Len(StrCases) - Len(ValCases)].n, sunit |-> ScaledCases[i - Len(StrCases) - Len(ValCases)].unit]])

Results == ndJsonDeserialize(ResultFile)
\* string cases: accepted exactly when well-formed (and it fits), and then worth digits * unit
BadStr == {i \in 1..Len(Results) : "s" \in DOMAIN Results[i] /\
              LET r == Results[i] IN
              \/ r.res = "panic"
              \/ (r.res = "ok") # (WellFormed(r.s) /\ "B20" \notin {r.s[j] : j \in 1..Len(r.s)})
              \/ (r.res = "ok" /\ Exact(r.s) /\ ~(r.q = Val(SubSeq(r.s, 1, Len(r.s) - 1)) /\ r.rem = 0))}
\* value cases: the written form reads back to the same count
BadVal == {i \in 1..Len(Results) : "n" \in DOMAIN Results[i] /\
              LET r == Results[i] IN ~(r.res = "ok" /\ r.val = r.n)}
          \cup {i \in 1..Len(Results) : "sn" \in DOMAIN Results[i] /\
              LET r == Results[i] IN ~(r.res = "ok" /\ r.q = r.sn /\ r.rem = 0)}
          \cup {i \in 1..Len(Results) : "dn" \in DOMAIN Results[i] /\
              LET r == Results[i] IN ~(r.res = "ok" /\ r.q = r.dn /\ r.rem = 0)}
FirstN(S, n) == {i \in S : Cardinality({j \in S : j < i}) < n}
Judge == PrintT(<<"SIZE-RESULT", Len(Results), Cardinality(BadStr), Cardinality(BadVal),
                  {Results[i] : i \in FirstN(BadStr, 8)}, {Results[i] : i \in FirstN(BadVal, 8)}>>)
=============================================================================
