---------------------------- MODULE SessionsTrace ----------------------------
(* Judges recorded runs of the real dashboard API (mux + Harden middleware) against Sessions.tla: the *)
(* status class of every response, which effect it had (new session / logout / password row / config), *)
(* and which session handles the real session table still holds as live after every step.              *)
EXTENDS Sessions, Json, IOUtils
CONSTANT TraceFile
TraceLog == ndJsonDeserialize(TraceFile)
VARIABLES l, bad, bads
tvars == <<vars, l, bad, bads>>
Line == TraceLog[l]
Is(a) == l <= Len(TraceLog) /\ Line.a = a
Judging == bad.line = 0

ObservedEffect == IF Line.newSession THEN "session" ELSE IF Line.cfgChanged THEN "config" ELSE IF Line.pwChanged THEN "password"
                  ELSE IF Line.loggedOut THEN "logout" ELSE "none"
LiveMatches == \A i \in S : (i <= Len(Line.live)) => (Line.live[i] = (st'[i] = "live"))
Problems(isReq) ==
    \* (for a plain route the property only says that the handler is reached: whatever it answers, it is not 401 / 403)
    (IF isReq /\ Line.status # last'.status /\ ~(Line.kind = "get" /\ last'.status = "2xx" /\ Line.status \notin {"401", "403"})
     THEN {"status"} ELSE {})
    \cup (IF isReq /\ "panic" \in DOMAIN Line THEN {"panic"} ELSE {})
    \cup (IF isReq /\ ObservedEffect # last'.effect THEN {"effect"} ELSE {})
    \cup (IF LiveMatches THEN {} ELSE {"sessions"})
Consume(isReq) ==
    /\ l' = l + 1
    /\ LET p == Problems(isReq)
       IN /\ bad' = IF bad.line = 0 /\ p # {} THEN [line |-> l, cats |-> p] ELSE bad
          /\ bads' = IF bad.line = 0 /\ p # {} /\ Len(bads) < 40 THEN Append(bads, [line |-> l, cats |-> p]) ELSE bads
    /\ TLCSet(1, [l |-> l + 1, bads |-> bads'])
Skip == l' = l + 1 /\ UNCHANGED <<vars, bad, bads>> /\ TLCSet(1, [l |-> l + 1, bads |-> bads])
TReset == /\ Is("reset")
          /\ st' = [s \in S |-> "unused"] /\ pwd' = "p0" /\ cfgver' = 0 /\ steps' = 0 /\ last' = [status |-> "none", effect |-> "none"]
          /\ l' = l + 1 /\ bad' = [line |-> 0] /\ UNCHANGED bads /\ TLCSet(1, [l |-> l + 1, bads |-> bads])
TAfterBad == l <= Len(TraceLog) /\ ~Judging /\ Line.a # "reset" /\ Skip
TReq == /\ Is("req") /\ Judging
        /\ Request(Line.kind, Line.cookie, Line.origin, Line.site, Line.pw, Line.newpw, Line.kind # "login")
        /\ Consume(TRUE)
TExpire == Is("expire") /\ Judging /\ Expire(Line.i) /\ Consume(FALSE)
TNoop == l <= Len(TraceLog) /\ Judging /\ Line.a = "noop" /\ Skip
TraceInit == Init /\ l = 1 /\ bad = [line |-> 0] /\ bads = <<>> /\ TLCSet(1, [l |-> 1, bads |-> <<>>])
TraceNext == TReset \/ TAfterBad \/ TReq \/ TExpire \/ TNoop
TraceSpec == TraceInit /\ [][TraceNext]_tvars
Report == LET r == TLCGet(1) IN /\ PrintT(<<"TRACE-ALL", r.bads>>)
                                /\ PrintT(<<"TRACE-RESULT", r.l - 1, Len(TraceLog), [line |-> 0]>>)
=============================================================================
