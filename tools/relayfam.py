"""Relay (C08) and Tunnel (C10) families: TLC enumerates relay cases / exchange sequences from spec/Relay.tla and
spec/Tunnel.tla, harness/cmd/relaydrv runs them on the real proxy (raw-socket client, plain + CONNECT/TLS, recording
origin), TLC judges the record."""
import json, os, re, shutil
import vlib

ALL_KINDS = {"get_a", "get_b", "get_c", "post_d", "get_e", "get_f", "head_a", "head_b", "head_c", "range_a", "range_b", "bad_a",
             "getbody_a", "post_big", "get_g", "post_expect_f"}


def relay_run(slices, backend="memory", transports=("plain", "tunnel")):
    d = vlib.scratch("relay-")
    try:
        consts = dict(Transports=set(transports), Slices=set(slices), CaseFile=os.path.join(d, "cases.ndjson"),
                      ResultFile=os.path.join(d, "res.ndjson"))
        cfg = vlib.cfg_text(consts, spec="Spec")
        r = vlib.tlc_check("RelayGen", cfg, timeout=300, workers=1)
        cases_p = os.path.join(d, "cases.ndjson")
        if not os.path.exists(cases_p):
            raise vlib.Inconclusive("RelayGen produced no cases: %s" % r["out"][-1500:])
        cases = {}
        for line in open(cases_p):
            c = json.loads(line)
            cases[c["id"]] = c
        binp = vlib.go_build("relaydrv")
        rc, out, err, _ = vlib.run_driver(binp, ["-mode", "cases", "-backend", backend, "-in", cases_p, "-out", os.path.join(d, "res.ndjson")],
                                          cwd=d, timeout=1500)
        if rc != 0 or "relaydrv done" not in out:
            raise vlib.Inconclusive("relaydrv failed (rc=%s): %s" % (rc, err[-1500:]))
        results = {}
        for line in open(os.path.join(d, "res.ndjson")):
            x = json.loads(line)
            results[x["id"]] = x
        r2 = vlib.tlc_check("RelayJudge", cfg, timeout=900, workers=1, heap="16g")
        m = re.search(r'<<\s*"RELAY-RESULT",\s*(\d+),\s*(\d+),\s*(".*")\s*>>\s*\n', r2["out"], re.S)
        if not m:
            raise vlib.Inconclusive("relay judge gave no result: %s" % r2["out"][-2000:])
        txt = "".join(x.strip() for x in m.group(3).splitlines())
        bad = json.loads(json.loads(txt))
        for b in bad:
            b["case"] = {k: cases[b["id"]][k] for k in ("slice", "tr", "method", "path", "query", "rf", "rbody", "status", "sf", "sbody")}
            b["observed"] = results.get(b["id"])
        sample = [{"case": {k: cases[i][k] for k in ("tr", "method", "path", "query", "rf", "rbody", "status", "sf", "sbody")},
                   "origin_saw": {k: results[i].get(k) for k in ("o_method", "o_path", "o_query", "o_body")},
                   "client_got": {k: results[i].get(k) for k in ("c_status", "c_body", "h_status", "h_xcache")}}
                  for i in sorted(cases)[::max(1, len(cases) // 8)]][:8]
        per_slice = {}
        for c in cases.values():
            per_slice[c["slice"]] = per_slice.get(c["slice"], 0) + 1
        return {"cases": int(m.group(1)), "nbad": int(m.group(2)), "bad": bad, "sample": sample, "per_slice": per_slice, "backend": backend,
                "second_answers": sum(1 for x in results.values() if x.get("h_status", 0) > 0),
                "hits": sum(1 for x in results.values() if x.get("h_xcache") == "HIT")}
    finally:
        shutil.rmtree(d, ignore_errors=True)


def tunnel_mc():
    """Isolation on the specification, and the negative control (one responder for the whole tunnel)."""
    out = []
    for fresh in (True, False):
        cfg = vlib.cfg_text(dict(Kinds=ALL_KINDS, MaxLen=4, FreshResponder=fresh), spec="Spec", invariants=["Isolated"])
        r = vlib.tlc_check("Tunnel", cfg, timeout=300)
        r["name"] = "tunnel_fresh_responder" if fresh else "tunnel_shared_responder_negative_control"
        out.append(r)
    return out


def tunnel_run(maxlen, backend="memory", seqs=None):
    d = vlib.scratch("tunnel-")
    try:
        seq_p = os.path.join(d, "seqs.ndjson")
        if seqs is None:
            cfg = vlib.cfg_text(dict(Kinds=ALL_KINDS, MaxLen=maxlen, MinLen=2, FreshResponder=True, SeqFile=seq_p), spec="GenSpec")
            r = vlib.tlc_check("TunnelGen", cfg, timeout=600, workers=1)
            if not os.path.exists(seq_p):
                raise vlib.Inconclusive("TunnelGen produced no sequences: %s" % r["out"][-1500:])
        else:
            with open(seq_p, "w") as fh:
                for s in seqs:
                    fh.write(json.dumps(s) + "\n")
        seqlist = [json.loads(x) for x in open(seq_p)]
        binp = vlib.go_build("relaydrv")
        rc, out, err, _ = vlib.run_driver(binp, ["-mode", "seq", "-backend", backend, "-in", seq_p, "-out", os.path.join(d, "trace.ndjson")],
                                          cwd=d, timeout=2400)
        if rc != 0 or "relaydrv done" not in out:
            raise vlib.Inconclusive("relaydrv failed (rc=%s): %s" % (rc, err[-1500:]))
        lines = [json.loads(x) for x in open(os.path.join(d, "trace.ndjson"))]
        tr = vlib.cfg_text(dict(Kinds=ALL_KINDS, MaxLen=99, FreshResponder=True, TraceFile="trace.ndjson"), spec="TraceSpec", postcondition="Report")
        r = vlib.tlc_validate("TunnelTrace", tr, os.path.join(d, "trace.ndjson"), timeout=1200)
        bys = {s["s"]: s for s in seqlist}
        problems = []
        for b in r["allbad"]:
            ln = lines[b["line"] - 1]
            problems.append({"cats": b["cats"], "line": b["line"], "event": ln, "seq": bys[ln["s"]]["kinds"], "replay_input": [bys[ln["s"]]]})
        if r["consumed"] < r["total"]:
            ln = lines[r["consumed"]]
            problems.append({"cats": ["struct"], "line": r["consumed"] + 1, "event": ln, "seq": bys.get(ln.get("s"), {}).get("kinds"),
                             "replay_input": [bys[ln["s"]]] if ln.get("s") in bys else []})
        kinds = {}
        for ln in lines:
            if ln.get("a") == "x":
                kinds[ln["k"]] = kinds.get(ln["k"], 0) + 1
        return {"sequences": len(seqlist), "lines": len(lines), "consumed": r["consumed"], "problems": problems, "kinds": kinds,
                "sample": [x for x in lines if x.get("s") == 1][:4], "backend": backend}
    finally:
        shutil.rmtree(d, ignore_errors=True)


def slow_run(ks, backend="memory"):
    """C05 slow readers: scenarios enumerated by TLC, run on the real proxy, judged by TLC."""
    d = vlib.scratch("slow-")
    try:
        consts = dict(Ks=set(ks), ScenFile=os.path.join(d, "scen.ndjson"), ResultFile=os.path.join(d, "res.ndjson"), PromptMs=10000)
        cfg = vlib.cfg_text(consts, spec="Spec")
        vlib.tlc_check("SlowReadersGen", cfg, timeout=120, workers=1)
        if not os.path.exists(os.path.join(d, "scen.ndjson")):
            raise vlib.Inconclusive("SlowReadersGen produced no scenarios")
        binp = vlib.go_build("relaydrv")
        rc, out, err, _ = vlib.run_driver(binp, ["-mode", "slow", "-backend", backend, "-in", os.path.join(d, "scen.ndjson"), "-out", os.path.join(d, "res.ndjson")],
                                          cwd=d, timeout=1800)
        if rc != 0 or "relaydrv done" not in out:
            raise vlib.Inconclusive("relaydrv slow failed (rc=%s): %s" % (rc, err[-1500:]))
        r2 = vlib.tlc_check("SlowReadersJudge", cfg, timeout=300, workers=1)
        m = re.search(r'<<\s*"SLOW-RESULT",\s*(\d+),\s*(\d+),\s*(".*")\s*>>\s*\n', r2["out"], re.S)
        if not m:
            raise vlib.Inconclusive("slow judge gave no result: %s" % r2["out"][-1500:])
        bad = json.loads(json.loads("".join(x.strip() for x in m.group(3).splitlines())))
        res = [json.loads(x) for x in open(os.path.join(d, "res.ndjson"))]
        return {"scenarios": int(m.group(1)), "nbad": int(m.group(2)), "bad": bad, "backend": backend, "sample": res[:3]}
    finally:
        shutil.rmtree(d, ignore_errors=True)
