----------------------------- MODULE RangeSpec -----------------------------
(***************************************************************************)
(* Reference semantics of the Range request header for C07 (and the range  *)
(* part of C16), over a token language.  A header value is a prefix (the   *)
(* unit part) followed by a sequence of tokens; the Go driver renders the  *)
(* tokens to bytes:                                                         *)
(*   "0" "1" "5" "9"   digits          "-" ","  "x"   themselves            *)
(*   "SP" a space, "TAB" a tab                                              *)
(*   "B63"  9223372036854775807 (2^63-1)   "B64"  18446744073709551616     *)
(* Representations are at most a few thousand bytes long, so a number with  *)
(* more than four digits or with a B-token is simply "beyond" every size.   *)
(*                                                                         *)
(* Allowed(prefix, tail, size) is the set of outcomes the property permits: *)
(*   <<"206", a, b>>  exactly bytes a..b of the stored representation       *)
(*   <<"416">>        refusal stating the size                              *)
(*   <<"200">>        the full representation                               *)
(* never another slice, never a panic / dropped connection.                 *)
(***************************************************************************)
EXTENDS Integers, Sequences, FiniteSets, TLC, Json, IOUtils, SequencesExt

CONSTANTS MaxLen, Sizes, Toks, UnitPrefixes, CaseFile, ResultFile,
          FullOK,     \* the full 200 is acceptable for every request (runs in which the origin refuses Range and the proxy retries without it)
          IfRangeOn   \* also generate the If-Range cases (end-to-end runs only: they need a stored representation)

WS      == {"SP", "TAB"}
Small   == {"0", "1", "5", "9"}
Big     == {"B63", "B64"}
DigitTk == Small \cup Big
DVal(t) == CASE t = "0" -> 0 [] t = "1" -> 1 [] t = "5" -> 5 [] t = "9" -> 9 [] OTHER -> 0

RangeOf(s) == {s[i] : i \in 1..Len(s)}
Strip(s)   == SelectSeq(s, LAMBDA t : t \notin WS)
HasWS(s)   == RangeOf(s) \cap WS # {}
IsNum(s)   == Len(s) > 0 /\ \A i \in 1..Len(s) : s[i] \in DigitTk
Beyond(s)  == Len(s) > 4 \/ RangeOf(s) \cap Big # {}
RECURSIVE Val(_)
Val(s) == IF s = <<>> THEN 0 ELSE Val(SubSeq(s, 1, Len(s) - 1)) * 10 + DVal(s[Len(s)])

\* <<kind, first, last>>: kind in "closed" "open" "suffix" "multiple" "malformed"
Class(tail) ==
    LET t == Strip(tail)
        dashes == {i \in 1..Len(t) : t[i] = "-"}
    IN IF "," \in RangeOf(t) THEN <<"multiple">>
       ELSE IF Cardinality(dashes) # 1 THEN <<"malformed">>
       ELSE LET d == CHOOSE i \in dashes : TRUE
                L == SubSeq(t, 1, d - 1)
                R == SubSeq(t, d + 1, Len(t))
            IN IF L = <<>> /\ IsNum(R) THEN <<"suffix", R>>
               ELSE IF IsNum(L) /\ R = <<>> THEN <<"open", L>>
               ELSE IF IsNum(L) /\ IsNum(R) THEN <<"closed", L, R>>
               ELSE <<"malformed">>

Refusals == {<<"416">>, <<"200">>}
\* the unit is "bytes" (range units are case-insensitive tokens: "Bytes" may be honoured or refused)
UnitOK(p)     == p = "bytes="
UnitEither(p) == p = "Bytes="

Allowed(p, tail, size) ==
    IF ~(UnitOK(p) \/ UnitEither(p)) THEN Refusals
    ELSE LET c == Class(tail)
             \* lenient forms (white space inside) and the case-variant unit may be served or refused
             opt == IF HasWS(tail) \/ UnitEither(p) THEN Refusals ELSE {}
         IN CASE c[1] = "closed" ->
                   IF Beyond(c[2]) \/ Val(c[2]) >= size THEN Refusals
                   ELSE IF ~Beyond(c[3]) /\ Val(c[3]) < Val(c[2]) THEN Refusals
                   ELSE IF ~Beyond(c[3]) /\ Val(c[3]) < size THEN {<<"206", Val(c[2]), Val(c[3])>>} \cup opt
                   ELSE {<<"206", Val(c[2]), size - 1>>} \cup Refusals     \* last-pos past the end: clamp or refuse
              [] c[1] = "open" ->
                   IF Beyond(c[2]) \/ Val(c[2]) >= size THEN Refusals
                   ELSE {<<"206", Val(c[2]), size - 1>>} \cup opt
              [] c[1] = "suffix" ->
                   IF size = 0 THEN Refusals
                   ELSE IF ~Beyond(c[2]) /\ Val(c[2]) = 0 THEN Refusals
                   ELSE IF ~Beyond(c[2]) /\ Val(c[2]) <= size THEN {<<"206", size - Val(c[2]), size - 1>>} \cup opt
                   ELSE {<<"206", 0, size - 1>>} \cup Refusals             \* longer than the representation
              [] OTHER -> Refusals

-----------------------------------------------------------------------------
(* bounded-exhaustive case generation                                        *)
RECURSIVE SeqsUpTo(_)
SeqsUpTo(n) == IF n = 0 THEN {<<>>} ELSE LET S == SeqsUpTo(n - 1) IN S \cup {Append(s, t) : s \in {x \in S : Len(x) = n - 1}, t \in Toks}

\* every tail up to MaxLen behind the proper unit; short tails behind the other prefixes
Cases == {[p |-> "bytes=", t |-> tail] : tail \in SeqsUpTo(MaxLen)}
         \cup {[p |-> p, t |-> tail] : p \in UnitPrefixes \ {"bytes="}, tail \in SeqsUpTo(IF MaxLen < 3 THEN MaxLen ELSE 3)}
-----------------------------------------------------------------------------
(* If-Range: the range is honoured only if the validator matches the stored representation, which carries       *)
(* ETag "v1" and a Last-Modified date LM; otherwise the full 200 is the answer.  Forms (rendered by the driver): *)
IRClass(f) == CASE f = "etag_match"        -> "match"      \* "v1" (quoted, as stored)
                [] f = "etag_other"        -> "mismatch"   \* "v2"
                [] f = "etag_unquoted"     -> "mismatch"   \* v1 without quotes: not the stored validator
                [] f = "star"              -> "mismatch"   \* *
                [] f = "etag_weak"         -> "either"     \* W/"v1": weak comparison is not allowed for If-Range, some allow it
                [] f = "date_eq"           -> "match"      \* LM as IMF-fixdate
                [] f = "date_older"        -> "mismatch"   \* a day before LM, IMF-fixdate
                [] f = "date_older_850"    -> "mismatch"   \* a day before LM, RFC 850 form
                [] f = "date_older_asc"    -> "mismatch"   \* a day before LM, asctime form
                [] f = "date_nogmt"        -> "mismatch"   \* LM without the zone: not a date, not the validator
                [] f = "date_garbage"      -> "mismatch"   \* "yesterday"
                [] f = "date_eq_850"       -> "either"     \* LM spelled in the obsolete form
                [] f = "date_newer"        -> "either"     \* a day after LM
                [] f = "empty"             -> "either"
IRForms == {"etag_match", "etag_other", "etag_unquoted", "star", "etag_weak", "date_eq", "date_older", "date_older_850", "date_older_asc",
            "date_nogmt", "date_garbage", "date_eq_850", "date_newer", "empty"}
IRTails == {<<"1", "-", "5">>, <<"0", "-">>, <<"-", "5">>, <<"9", "-", "9", "9">>}
IRCases == IF IfRangeOn THEN {[p |-> "bytes=", t |-> tail, ir |-> f] : tail \in IRTails, f \in IRForms} ELSE {}
PlainSeq == SetToSeq(Cases)
IRSeq == SetToSeq(IRCases)
CaseSeq == [i \in 1..(Len(PlainSeq) + Len(IRSeq)) |->
              IF i <= Len(PlainSeq) THEN [p |-> PlainSeq[i].p, t |-> PlainSeq[i].t, ir |-> "none"] ELSE IRSeq[i - Len(PlainSeq)]]
WriteCases == ndJsonSerialize(CaseFile, CaseSeq)

-----------------------------------------------------------------------------
(* judging recorded results: one line per (case, size): [p, t, size, out] with out a tuple as above *)
Results == ndJsonDeserialize(ResultFile)
OutOf(r) == IF r.out[1] = "206" THEN <<"206", r.out[2], r.out[3]>> ELSE <<r.out[1]>>
IROf(r) == IF "ir" \in DOMAIN r THEN r.ir ELSE "none"
AllowedIR(r) == LET a == Allowed(r.p, r.t, r.size) IN
                IF IROf(r) = "none" THEN a
                ELSE CASE IRClass(IROf(r)) = "match" -> a
                       [] IRClass(IROf(r)) = "mismatch" -> {<<"200">>}
                       [] OTHER -> a \cup {<<"200">>}
Bad == {i \in 1..Len(Results) : OutOf(Results[i]) \notin AllowedIR(Results[i]) \cup (IF FullOK THEN {<<"200">>} ELSE {})}
Judge == PrintT(<<"RANGE-RESULT", Len(Results), Cardinality(Bad),
                  [i \in (IF Bad = {} THEN {} ELSE {CHOOSE x \in Bad : \A y \in Bad : x <= y}) |->
                      [case |-> Results[i], allowed |-> AllowedIR(Results[i])]],
                  {<<Results[i].p, Results[i].t>> : i \in {j \in Bad : j <= 400}}>>)
=============================================================================
