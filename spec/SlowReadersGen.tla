-------------------------- MODULE SlowReadersGen --------------------------
EXTENDS SlowReaders
VARIABLE dummy
ASSUME WriteScens
Spec == dummy = 0 /\ [][FALSE]_dummy
=============================================================================
