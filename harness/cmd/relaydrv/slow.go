package main

import (
	"bufio"
	"bytes"
	"encoding/json"
	"fmt"
	"io"
	"net"
	"net/http"
	"os"
	"strings"
	"sync/atomic"
	"time"
)

// Slow readers (C05: "a client that ... reads slowly never changes what the others receive"). k clients ask for a
// large (96 MiB) resource and stop reading after the response head; then one more client asks for the same resource and one for
// another resource of the same origin: both must get complete answers promptly; finally the slow clients read on and
// must get complete bodies too. Scenarios come from TLC (spec/ProxyGen is not involved: the specification's deliveries
// do not depend on how fast a client reads, which is exactly what is checked).

type slowScenario struct {
	ID        int  `json:"id"`
	K         int  `json:"k"`
	Cacheable bool `json:"cacheable"`
	Streamed  bool `json:"streamed"`
}

const slowBody = 96 << 20

func slowPattern(id int) []byte {
	b := make([]byte, slowBody)
	pat := []byte(fmt.Sprintf("slow-%d|0123456789abcdefghijklmnopqrstuvwxyz|", id))
	for i := range b {
		b[i] = pat[i%len(pat)]
	}
	return b
}

func runSlow(dir, backend, in, out string) error {
	raw, err := os.ReadFile(in)
	if err != nil {
		return err
	}
	of, err := os.Create(out)
	if err != nil {
		return err
	}
	defer of.Close()
	enc := json.NewEncoder(of)
	for _, ln := range strings.Split(strings.TrimSpace(string(raw)), "\n") {
		var sc slowScenario
		if err := json.Unmarshal([]byte(ln), &sc); err != nil {
			return err
		}
		d := &driver{}
		os.MkdirAll(fmt.Sprintf("%s/slow-%d", dir, sc.ID), 0o755)
		d.open(fmt.Sprintf("%s/slow-%d", dir, sc.ID), backend)
		body := slowPattern(sc.ID)
		var active, maxActive atomic.Int64
		d.osrv.Config.Handler = http.HandlerFunc(func(w http.ResponseWriter, r *http.Request) {
			if n := active.Add(1); n > maxActive.Load() {
				maxActive.Store(n)
			}
			defer active.Add(-1)
			if strings.HasPrefix(r.URL.Path, "/other") {
				w.Header().Set("Cache-Control", "no-store")
				w.Header().Set("Content-Length", "5")
				io.WriteString(w, "other")
				return
			}
			if sc.Cacheable {
				w.Header().Set("Cache-Control", "max-age=600")
			} else {
				w.Header().Set("Cache-Control", "no-store")
			}
			if !sc.Streamed {
				w.Header().Set("Content-Length", fmt.Sprint(len(body)))
			}
			w.WriteHeader(200)
			fl, _ := w.(http.Flusher)
			for i := 0; i < len(body); i += 1 << 16 {
				if _, err := w.Write(body[i : i+1<<16]); err != nil {
					return
				}
				if sc.Streamed && fl != nil {
					fl.Flush()
				}
			}
		})
		type cl struct {
			conn net.Conn
			br   *bufio.Reader
			resp *http.Response
		}
		open := func(path string) (*cl, error) {
			conn, err := net.DialTimeout("tcp", d.phost, 3*time.Second)
			if err != nil {
				return nil, err
			}
			if tc, ok := conn.(*net.TCPConn); ok {
				tc.SetReadBuffer(256 << 10) // a fixed, moderate receive buffer (no autotuning up to tens of MiB)
			}
			conn.SetDeadline(time.Now().Add(15 * time.Second))
			fmt.Fprintf(conn, "GET http://%s%s HTTP/1.1\r\nHost: %s\r\n\r\n", d.ohost, path, d.ohost)
			br := bufio.NewReaderSize(conn, 4096)
			resp, err := http.ReadResponse(br, &http.Request{Method: "GET"})
			if err != nil {
				conn.Close()
				return nil, err
			}
			return &cl{conn, br, resp}, nil
		}
		finish := func(c *cl, want []byte) string {
			defer c.conn.Close()
			c.conn.SetDeadline(time.Now().Add(20 * time.Second))
			if c.resp.StatusCode != 200 {
				return fmt.Sprintf("status %d", c.resp.StatusCode)
			}
			// compare while reading (the bodies are large)
			buf := make([]byte, 1<<18)
			n := 0
			for {
				m, err := c.resp.Body.Read(buf)
				if m > 0 {
					if n+m > len(want) || !bytes.Equal(buf[:m], want[n:n+m]) {
						return fmt.Sprintf("wrong body at byte %d", n)
					}
					n += m
				}
				if err == io.EOF {
					break
				}
				if err != nil {
					return fmt.Sprintf("read after %d bytes: %v", n, err)
				}
			}
			if n != len(want) {
				return fmt.Sprintf("short body (%d of %d bytes)", n, len(want))
			}
			return "ok"
		}
		res := map[string]any{"id": sc.ID, "k": sc.K, "cacheable": sc.Cacheable, "streamed": sc.Streamed}
		var slows []*cl
		slowErr := ""
		for i := 0; i < sc.K; i++ {
			c, err := open("/big")
			if err != nil {
				slowErr = err.Error()
				break
			}
			slows = append(slows, c) // the head is here, the body is left unread
		}
		res["slow_heads"] = len(slows)
		res["origin_active_after_heads"] = active.Load()
		t0 := time.Now()
		probe := "ok"
		if c, err := open("/big"); err != nil {
			probe = "no answer: " + err.Error()
		} else {
			probe = finish(c, body)
		}
		res["probe"], res["probe_ms"] = probe, time.Since(t0).Milliseconds()
		other := "ok"
		if c, err := open("/other"); err != nil {
			other = "no answer: " + err.Error()
		} else {
			other = finish(c, []byte("other"))
		}
		res["other"] = other
		bad := 0
		first := slowErr
		for _, c := range slows {
			if r := finish(c, body); r != "ok" {
				bad++
				if first == "" {
					first = r
				}
			}
		}
		res["slow_bad"], res["slow_first"] = bad+(sc.K-len(slows)), first
		res["origin_max_active"] = maxActive.Load()
		enc.Encode(res)
		d.close()
		os.RemoveAll(fmt.Sprintf("%s/slow-%d", dir, sc.ID))
	}
	return nil
}
