----------------------------- MODULE ConfigCells -----------------------------
(***************************************************************************)
(* Settings, command-line overrides, the two-phase API update and its      *)
(* persistence (config/*.go) for C18, C17 and the component half of C19.   *)
(*                                                                         *)
(* A setting p has a base value (what the file holds), possibly an         *)
(* override given on the command line (effective for this process, never   *)
(* saved), and components that follow its effective value.  Values are     *)
(* tokens: "v1", "v2" are two distinct workable values, "inv" decodes but is not *)
(* workable (fails verification), "bad" does not decode (ill-typed).       *)
(*                                                                         *)
(* Update(doc, persistOK) is the whole API update as one transaction:      *)
(* accepted iff every value decodes, the resulting configuration verifies  *)
(* and the file write succeeds; then exactly the addressed settings        *)
(* change, the components follow, and the file holds the new base values.  *)
(* Otherwise nothing changes at all.                                       *)
(***************************************************************************)
EXTENDS Integers, Sequences, FiniteSets, TLC

CONSTANTS Props, Live, MaxSteps
\* Props: setting names; Live \subseteq Props: settings that a running component follows

Good == {"v1", "v2"}
Tokens == Good \cup {"inv", "bad"}
None == "none"

VARIABLES base, ovr, comp, file, steps, lastRes
vars == <<base, ovr, comp, file, steps, lastRes>>

Eff(b, o, p) == IF o[p] # None THEN o[p] ELSE b[p]

Init ==
    /\ base = [p \in Props |-> "v1"]
    /\ ovr = [p \in Props |-> None]
    /\ comp = [p \in Props |-> "v1"]
    /\ file = [p \in Props |-> "v1"]
    /\ steps = 0
    /\ lastRes = "none"

Override(p, v) ==
    /\ steps < MaxSteps /\ v \in Good
    /\ ovr' = [ovr EXCEPT ![p] = v]
    /\ comp' = [comp EXCEPT ![p] = v]
    /\ steps' = steps + 1 /\ lastRes' = "override"
    /\ UNCHANGED <<base, file>>

\* doc: a function from a non-empty subset of Props to Tokens
Accepts(doc, persistOK) ==
    /\ \A p \in DOMAIN doc : doc[p] # "bad"
    /\ \A p \in DOMAIN doc : doc[p] # "inv"
    /\ persistOK

Update(doc, persistOK) ==
    /\ steps < MaxSteps
    /\ steps' = steps + 1
    /\ IF Accepts(doc, persistOK)
       THEN LET nb == [p \in Props |-> IF p \in DOMAIN doc THEN doc[p] ELSE base[p]]
            IN /\ base' = nb
               /\ file' = nb
               /\ comp' = [p \in Props |-> Eff(nb, ovr, p)]
               /\ lastRes' = "accepted"
       ELSE /\ UNCHANGED <<base, file, comp>>
            /\ lastRes' = "rejected"
    /\ UNCHANGED ovr

Docs == UNION {[S -> Tokens] : S \in (SUBSET Props) \ {{}}}
SmallDocs == {d \in Docs : Cardinality(DOMAIN d) <= 2}

Next == \/ \E p \in Props, v \in Good : Override(p, v)
        \/ \E d \in SmallDocs, ok \in BOOLEAN : Update(d, ok)
Spec == Init /\ [][Next]_vars

\* C19 / C17: components follow the effective value; overrides win and are never saved
ComponentsFollow == \A p \in Live : comp[p] = Eff(base, ovr, p)
FileIsBase == \A p \in Props : file[p] = base[p] /\ file[p] \in Good
OnlyWorkable == \A p \in Props : base[p] \in Good
=============================================================================
