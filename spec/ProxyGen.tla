------------------------------ MODULE ProxyGen ------------------------------
(* Behaviour generator for replay of Proxy.tla on the real proxy (see CacheStoreGen). *)
EXTENDS MCProxy, Json

CONSTANTS Depth, GenForms, GenVals
VARIABLE hist

Rec(a, c, r, kind, cond, status, st, d, form, val) ==
    [a |-> a, c |-> c, r |-> r, kind |-> kind, cond |-> cond, status |-> status, st |-> st, d |-> d,
     form |-> form, val |-> val]
Log(rec) == hist' = Append(hist, rec)

GenInit == Init /\ hist = << [a |-> "init", origin0 |-> origin] >>

\* keep walks busy with requests: at most two consecutive environment steps
EnvRun == IF Len(hist) >= 2 THEN hist[Len(hist)].a \in {"shift", "evict", "ochange", "unlink", "policy"} /\ hist[Len(hist) - 1].a \in {"shift", "evict", "ochange", "unlink", "policy"}
          ELSE FALSE

GenFixedPolicy ==
    \/ \E c \in Clients, r \in Res, k \in Kinds, cd \in Conds :
          Send(c, r, k, cd) /\ Log(Rec("send", c, r, k, cd, 0, FALSE, 0, "", ""))
    \/ \E x \in 1..MaxX, s \in {200, 206, 304, 404, 416, 500}, st \in BOOLEAN :
          Reply(x, s, st, contacts[x].leader /\ contacts[x].kind = "get") /\ Log(Rec("reply", contacts[x].oc, contacts[x].r, contacts[x].kind, "", s, st, 0, "", ""))
    \/ \E d \in 1..3 : ~EnvRun /\ Shift(d) /\ Log(Rec("shift", 0, 0, "", "", 0, FALSE, d, "", ""))
    \/ \E r \in Res : ~EnvRun /\ Evict(r) /\ Log(Rec("evict", 0, r, "", "", 0, FALSE, 0, "", ""))
    \/ \E r \in Res, w \in 1..4 : ~EnvRun /\ Unlink(r) /\ Log(Rec("unlink", 0, r, "", "", 0, FALSE, 0, "", ""))
    \/ \E r \in Res, f \in GenForms, v \in GenVals :
          ~EnvRun /\ OriginChange(r, f, v) /\ Log(Rec("ochange", 0, r, "", "", 0, FALSE, 0, f, v))
    \/ \E c \in Clients : Disconnect(c) /\ Log(Rec("disconnect", c, 0, "", "", 0, FALSE, 0, "", ""))
    \* bias towards the rare window "the entry vanishes while its revalidation is in flight, then the origin says 304":
    \* the same actions again, several times (the simulator picks among the generated successors)
    \/ \E r \in Res, w \in 1..4 :
          /\ \E x \in 1..MaxX : contacts[x].open /\ contacts[x].reval /\ contacts[x].r = r
          /\ Evict(r) /\ Log(Rec("evict", 0, r, "", "", 0, FALSE, 0, "", ""))
    \/ \E x \in 1..MaxX, w \in 1..6 :
          /\ contacts[x].open /\ contacts[x].reval /\ ~store[contacts[x].r].present
          /\ Reply(x, 304, FALSE, contacts[x].leader /\ contacts[x].kind = "get")
          /\ Log(Rec("reply", contacts[x].oc, contacts[x].r, contacts[x].kind, "", 304, FALSE, 0, "", ""))

\* a change of the policy switches in the middle of the history (several copies: the simulator picks among successors)
GenNext == (GenFixedPolicy /\ UNCHANGED pol)
           \/ \E i, f \in BOOLEAN, g \in Ages : ~EnvRun /\ SetPolicy(i, f, g) /\ Log([a |-> "policy", icc |-> i, fd |-> f, age |-> g])

GenSpec == GenInit /\ [][GenNext]_<<vars, hist>>
PrintHist == (TLCGet("level") # Depth) \/ PrintT(<<"HIST", ToJson(hist)>>)
=============================================================================
