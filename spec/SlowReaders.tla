---------------------------- MODULE SlowReaders ----------------------------
(***************************************************************************)
(* C05, "a client that ... reads slowly never changes what the others      *)
(* receive".  In Proxy.tla a delivery is one step: what a client receives   *)
(* does not depend on how fast any client reads.  This module enumerates    *)
(* the scenarios that put that abstraction to the test on the real proxy    *)
(* (K clients stop reading after the response head of a large resource;     *)
(* one more client then asks for the same resource and one for another      *)
(* resource of the same origin; then the slow ones read on) and judges the  *)
(* record: everybody gets a complete answer, the late-comers promptly.      *)
(***************************************************************************)
EXTENDS Integers, Sequences, FiniteSets, TLC, Json, IOUtils, SequencesExt
CONSTANTS Ks, ScenFile, ResultFile, PromptMs
Scens == SetToSeq({[k |-> k, cacheable |-> c, streamed |-> s] : k \in Ks, c \in BOOLEAN, s \in BOOLEAN})
WriteScens == ndJsonSerialize(ScenFile, [i \in 1..Len(Scens) |-> [id |-> i, k |-> Scens[i].k, cacheable |-> Scens[i].cacheable, streamed |-> Scens[i].streamed]])
Results == ndJsonDeserialize(ResultFile)
Cats(r) == (IF r.probe = "ok" /\ r.probe_ms <= PromptMs THEN {} ELSE {"latecomer_not_served"})
           \cup (IF r.other = "ok" THEN {} ELSE {"other_resource_not_served"})
           \cup (IF r.slow_bad = 0 THEN {} ELSE {"slow_reader_incomplete"})
Bad == {i \in 1..Len(Results) : Cats(Results[i]) # {}}
Judge == PrintT(<<"SLOW-RESULT", Len(Results), Cardinality(Bad), ToJson([i \in Bad |-> [r |-> Results[i], cats |-> SetToSeq(Cats(Results[i]))]])>>)
=============================================================================
