---------------------------- MODULE TunnelTrace ----------------------------
(* Judges recorded exchanges against Tunnel.tla.  One line per exchange of a sequence:                     *)
(*   [s, i, k, shared, own, plain] with each way's observation [status, names (tracked header names seen), *)
(*   body ("sized","chunked","large","slice","refusal","empty","other:n"), sized (Content-Length present), *)
(*   vals (tracked name -> values), err]; a "reset" line starts a sequence.                                 *)
(* The specification's Exchange(k) gives what the exchange must put on the wire; each way must show it, and *)
(* the ways (a fourth, "piped", when recorded) must agree on every tracked header value.                     *)
EXTENDS Tunnel, Json, IOUtils
CONSTANTS TraceFile
TraceLog == ndJsonDeserialize(TraceFile)
VARIABLES l, bads
tvars == <<vars, l, bads>>
Line == TraceLog[l]
Is(a) == l <= Len(TraceLog) /\ Line.a = a
ToSet(s) == {s[i] : i \in 1..Len(s)}
WayCats(w, tag) ==
    IF w.err # "" THEN {tag \o "_no_answer"}
    ELSE (IF w.status = out'.status THEN {} ELSE {tag \o "_status"})
         \cup (IF ToSet(w.names) \cap Tracked = out'.names \cap Tracked THEN {}
               ELSE IF (ToSet(w.names) \cap Tracked) \ out'.names # {} THEN {tag \o "_foreign_header"} ELSE {tag \o "_missing_header"})
         \cup (IF w.body = out'.body THEN {} ELSE {tag \o "_body"})
         \* (whether a length is announced or the body is chunked is the writer's choice; a wrong length shows
         \*  as a wrong body, a failed read, or bytes left on the tunnel)
Agree(a, b) == a.err = "" /\ b.err = "" => a.vals = b.vals /\ a.status = b.status /\ a.body = b.body
Note(p) == /\ bads' = IF p # {} /\ Len(bads) < 60 THEN Append(bads, [line |-> l, cats |-> p]) ELSE bads
           /\ TLCSet(1, [l |-> l + 1, bads |-> bads'])
TReset == Is("reset") /\ store' = {} /\ resp' = {} /\ n' = 0 /\ out' = [status |-> 0, names |-> {}, body |-> "", sized |-> TRUE, k |-> ""]
          /\ l' = l + 1 /\ Note({})
TExchange == /\ Is("x") /\ Exchange(Line.k)
             /\ l' = l + 1
             /\ Note(WayCats(Line.shared, "shared") \cup WayCats(Line.own, "own") \cup WayCats(Line.plain, "plain")
                     \cup (IF Agree(Line.shared, Line.plain) THEN {} ELSE {"shared_differs_from_plain"})
                     \cup (IF Agree(Line.own, Line.plain) THEN {} ELSE {"own_differs_from_plain"})
                     \* the same exchanges pipelined over one tunnel (all requests written before the first answer is read)
                     \cup (IF "piped" \notin DOMAIN Line \/ Line.piped.err = "skipped" THEN {}
                           ELSE WayCats(Line.piped, "piped")
                                \cup (IF Agree(Line.piped, Line.plain) THEN {} ELSE {"piped_differs_from_plain"})))
TraceInit == Init /\ l = 1 /\ bads = <<>> /\ TLCSet(1, [l |-> 1, bads |-> <<>>])
TraceNext == TReset \/ TExchange
TraceSpec == TraceInit /\ [][TraceNext]_tvars
Report == LET r == TLCGet(1) IN /\ PrintT(<<"TRACE-ALL", r.bads>>)
                                /\ PrintT(<<"TRACE-RESULT", r.l - 1, Len(TraceLog), [line |-> 0]>>)
=============================================================================
