"""JanitorCtl family (last clause of C13, 'however quickly' clause of C19): TLC checks the mailbox protocol between the
configuration property and the janitor, enumerates every visible schedule (changes x hold/release of the janitor), the
real janitor is driven through them and TLC judges the interval it ends up running on."""
import re, json, os, shutil
from concurrent.futures import ThreadPoolExecutor
import vlib


def mc():
    out = []
    for drop in (False, True):
        cfg = vlib.cfg_text(dict(Vals={1, 2, 3}, MaxChanges=4, DropWhenFull=drop), spec="Spec", invariants=["LatestGoverns"],
                            properties=[] if drop else ["Settles"])
        r = vlib.tlc_check("JanitorCtl", cfg, timeout=300)
        r["name"] = "janitorctl_drop_when_full_negative_control" if drop else "janitorctl_blocking_send"
        out.append(r)
    return out


def run(maxlen, backend="memory", procs=8, seqs=None):
    d = vlib.scratch("jan-")
    try:
        seq_p = os.path.join(d, "seqs.ndjson")
        if seqs is None:
            cfg = vlib.cfg_text(dict(Vals={1, 2, 3}, MaxLen=maxlen, SeqFile=seq_p), spec="GenSpec")
            r = vlib.tlc_check("JanitorCtlGen", cfg, timeout=600, workers=1)
            if not os.path.exists(seq_p):
                raise vlib.Inconclusive("JanitorCtlGen produced no schedules: %s" % r["out"][-1500:])
            seqlist = [json.loads(x) for x in open(seq_p)]
        else:
            seqlist = seqs
        binp = vlib.go_build("jandrv")
        chunks = [seqlist[i::procs] for i in range(procs) if seqlist[i::procs]]

        def one(t):
            i, ch = t
            wd = os.path.join(d, "w%d" % i)
            os.makedirs(wd)
            def drive(sub, tag):
                with open(os.path.join(wd, "in.ndjson"), "w") as fh:
                    for s in sub:
                        fh.write(json.dumps(s) + "\n")
                rc, out, err, _ = vlib.run_driver(binp, ["-backend", backend, "-in", "in.ndjson", "-out", "trace.ndjson"], cwd=wd, timeout=1500)
                got = []
                if os.path.exists(os.path.join(wd, "trace.ndjson")):
                    for x in open(os.path.join(wd, "trace.ndjson")):
                        try:
                            got.append(json.loads(x))
                        except ValueError:
                            pass
                ok = rc == 0 and "jandrv done" in out
                # the process was killed by a panic inside the code under test (its frames are on the stack), not by the driver
                m = None if ok else re.search(r"^(panic: [^\n]*|fatal error: [^\n]*)\n(?:.*\n)*?(reservoir/\S+)", err, re.M)
                return ok, got, err, m
            rest, lines_, died = list(ch), [], []
            while rest:
                ok, got, err, m = drive(rest, "all")
                if ok:
                    lines_ += got
                    break
                if not m:
                    raise vlib.Inconclusive("jandrv failed: %s" % err[-1200:])
                seen_s = [ln.get("s") for ln in got if "s" in ln]
                ids = [s["s"] for s in rest]
                k = ids.index(seen_s[-1]) if seen_s and seen_s[-1] in ids else 0
                culprit = None
                for cand in (k, k + 1):
                    # which ready channel the janitor's select takes is the runtime's choice: a schedule is given several tries
                    for attempt in range(8):
                        if cand >= len(rest) or culprit is not None:
                            break
                        ok1, _, err1, m1 = drive([rest[cand]], "one")
                        if not ok1 and m1:
                            culprit = cand
                            died.append({"schedule": rest[cand], "panic": m1.group(1), "in": m1.group(2), "stderr": err1[-1500:]})
                    if culprit is not None:
                        break
                if culprit is None:
                    raise vlib.Inconclusive("jandrv died (%s) but no single schedule reproduces it" % m.group(1))
                done_ids = set(ids[:culprit])
                lines_ += [ln for ln in got if ln.get("s") in done_ids]
                rest = rest[culprit + 1:]
            return lines_, died
        with ThreadPoolExecutor(max_workers=procs) as ex:
            parts = list(ex.map(one, enumerate(chunks)))
        lines = [ln for p, _ in parts for ln in p]
        deaths = [x for _, dd in parts for x in dd]
        errs = [ln for ln in lines if ln.get("err")]
        if errs:
            raise vlib.Inconclusive("jandrv could not drive the janitor: %s" % errs[0])
        tp = os.path.join(d, "trace.ndjson")
        with open(tp, "w") as fh:
            for ln in lines:
                fh.write(json.dumps(ln) + "\n")
        tr = vlib.cfg_text(dict(Vals={1, 2, 3}, MaxChanges=99, DropWhenFull=False, TraceFile="trace.ndjson"), spec="TraceSpec", postcondition="Report")
        r = vlib.tlc_validate("JanitorCtlTrace", tr, tp, timeout=900)
        bys = {s["s"]: s for s in seqlist}
        problems = []
        for x in deaths:
            # an accepted interval change after which the process is dead (the janitor goroutine panicked)
            problems.append({"cats": ["process_died"], "line": 0, "event": {"panic": x["panic"], "in": x["in"]}, "schedule": x["schedule"]["steps"],
                             "replay_input": [x["schedule"]]})
        for b in r["allbad"]:
            ln = lines[b["line"] - 1]
            problems.append({"cats": b["cats"], "line": b["line"], "event": ln, "schedule": bys[ln["s"]]["steps"], "replay_input": [bys[ln["s"]]]})
        if r["consumed"] < r["total"]:
            ln = lines[r["consumed"]]
            problems.append({"cats": ["struct"], "line": r["consumed"] + 1, "event": ln, "schedule": None, "replay_input": [bys[ln["s"]]] if ln.get("s") in bys else []})
        return {"schedules": len(seqlist), "lines": len(lines), "consumed": r["consumed"], "problems": problems, "backend": backend,
                "sample": [x for x in lines if x.get("s") == seqlist[len(seqlist) // 2]["s"]]}
    finally:
        shutil.rmtree(d, ignore_errors=True)


def check_part(prop, tier, seed, only=None):
    """extra run for C13 / C19: returns dict(violations, notes, coverage, traces)"""
    out = {"violations": [], "notes": [], "coverage": {}, "traces": 0}
    ms = mc()
    if not ms[0].get("complete"):
        raise vlib.Inconclusive("TLC did not complete JanitorCtl: %s %s" % (ms[0]["violated"], ms[0]["out"][-600:]))
    if "LatestGoverns" not in str(ms[1].get("violated")):
        raise vlib.Inconclusive("negative control: LatestGoverns was not violated with DropWhenFull")
    runs = [("memory", 5)] if tier == "quick" else [("memory", 6), ("file", 5)]
    cov = []
    for backend, maxlen in runs:
        r = run(maxlen, backend)
        out["traces"] += r["schedules"]
        cov.append({k: r[k] for k in ("backend", "schedules", "lines", "consumed")})
        seen = set()
        for p in r["problems"]:
            key = tuple(p["cats"])
            if key in seen or (only and not (set(p["cats"]) & only)):
                continue
            # reproduce before reporting
            again = run(0, backend, procs=1, seqs=p["replay_input"])
            if not again["problems"] and "process_died" in p["cats"]:
                for _ in range(8):
                    again = run(0, backend, procs=1, seqs=p["replay_input"])
                    if again["problems"]:
                        break
            if not again["problems"]:
                out["notes"].append("janitor schedule %s: mismatch %s did not reproduce alone; not counted" % (p["schedule"], p["cats"]))
                continue
            seen.add(key)
            print("janitor interval mismatch %s after schedule %s: %s" % (p["cats"], p["schedule"], p["event"]))
            out["violations"].append(vlib.save_replay(prop, "janitorctl-%s-%s-seed%d.json" % (backend, vlib.digest(p["replay_input"]), seed),
                                                      {"kind": "jandrv", "backend": backend, "cats": p["cats"], "event": p["event"], "input": p["replay_input"]}))
    out["coverage"] = {"janitor_interval_protocol": {"model": {"distinct_states": ms[0].get("distinct"), "negative_control_violated": ms[1].get("violated")},
                                                      "replays": cov}}
    return out


def replay(art):
    r = run(0, art.get("backend", "memory"), procs=1, seqs=art["input"])
    for _ in range(8):
        if r["problems"] or "process_died" not in art.get("cats", []):
            break
        r = run(0, art.get("backend", "memory"), procs=1, seqs=art["input"])
    for p in r["problems"]:
        print("replayed:", p["cats"], p["event"])
    return bool(r["problems"])


def c13_runs(tier, seed):
    return check_part("C13", tier, seed)
