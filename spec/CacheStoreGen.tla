---------------------------- MODULE CacheStoreGen ----------------------------
(* Behaviour generator for replay (specification -> code): CacheStore's actions, each        *)
(* recording itself in the history variable hist; TLC -simulate prints one JSON behaviour     *)
(* per random walk when the walk reaches Depth.                                               *)
EXTENDS MCCacheStore, Json

CONSTANTS Depth,
          Bias,   \* BOOLEAN: steer random walks towards populated caches, evictions and cleanup
          NF      \* store shapes <<nchunks, failAt>> the generator may choose (bias control)
VARIABLE hist

Rec(a, p, k, n, f, h, e, l, r) ==
    [a |-> a, p |-> p, k |-> k, n |-> n, f |-> f, h |-> h, e |-> e, l |-> l, r |-> r,
     la |-> [x \in Keys |-> entries'[x].la], clk |-> clock']

Log(r) == hist' = Append(hist, r)
B(p) == IF pc[p] = "blocked" THEN 1 ELSE 0

GenInit == Init /\ hist = <<>>

\* The driver cannot hold back a caller that is blocked on a shard lock: it runs as soon as the
\* lock is released. The generator therefore resumes blocked callers first.
ResumePending == \E p \in Clients : pc[p] = "blocked" /\ lock[ShardOf[pend[p][2]]] = Free
MayRun(p) == ~ResumePending \/ pc[p] = "blocked"
Useful(k) == ~Bias \/ entries[k].present \/ (\E q \in Clients : pc[q] = "copying" /\ op[q].k = k) \/ Present = {}
NoLimitChangeYet == \A i \in DOMAIN hist : hist[i].a # "setlimit"

GenNext ==
    \/ \E p \in Clients, k \in Keys, nf \in NF :
          MayRun(p) /\ StoreBegin(p, k, nf[1], nf[2]) /\ Log(Rec("store", p, k, nf[1], nf[2], 0, 0, 0, B(p)))
    \/ \E p \in Clients : ~ResumePending /\ StoreChunk(p) /\ Log(Rec("chunk", p, 0, 0, 0, 0, 0, 0, 0))
    \/ \E p \in Clients : ~ResumePending /\ StoreAbort(p) /\ Log(Rec("abort", p, 0, 0, 0, 0, 0, 0, 0))
    \/ \E p \in Clients : ~ResumePending /\ StoreCommit(p) /\ Log(Rec("commit", p, 0, 0, 0, 0, 0, 0, 0))
    \/ \E p \in Clients, k \in Keys : MayRun(p) /\ Useful(k) /\ Get(p, k) /\ Log(Rec("get", p, k, 0, 0, 0, 0, 0, B(p)))
    \/ \E p \in Clients, k \in Keys : Deletes /\ MayRun(p) /\ Useful(k) /\ Delete(p, k) /\ Log(Rec("delete", p, k, 0, 0, 0, 0, 0, B(p)))
    \/ \E h \in 1..MaxHandles : ~ResumePending /\ Read(h) /\ Log(Rec("read", 0, 0, 0, 0, h, 0, 0, 0))
    \/ \E h \in 1..MaxHandles : ~ResumePending /\ CloseH(h) /\ Log(Rec("close", 0, 0, 0, 0, h, 0, 0, 0))
    \/ \E p \in Clients, k \in Keys, e \in UpdVals :
          MayRun(p) /\ Useful(k) /\ UpdateMeta(p, k, e) /\ Log(Rec("update", p, k, 0, 0, 0, IF e THEN 1 ELSE 0, 0, B(p)))
    \/ \E p \in Clients, c \in Calls :
          ~ResumePending /\ (c[1] = "store" => <<c[3], c[4]>> \in NF) /\ Block(p, c) /\ Log(Rec(c[1], p, c[2], IF c[1] = "store" THEN c[3] ELSE 0,
                                 IF c[1] = "store" THEN c[4] ELSE 0, 0,
                                 IF c[1] = "update" /\ c[3] THEN 1 ELSE 0, 0, 0))
    \/ \E k \in Keys : ~ResumePending /\ Expire(k) /\ Log(Rec("expire", 0, k, 0, 0, 0, 0, 0, 0))
    \/ \E k \in Keys : ~ResumePending /\ JanRemove(k) /\ Log(Rec("jremove", 0, k, 0, 0, 0, 0, 0, 0))
    \/ ~ResumePending /\ (~Bias \/ bytes >= limit \/ \E k \in Present : entries[k].exp) /\ JanScan /\ Log(Rec("scan", 0, 0, 0, 0, 0, 0, 0, 0))
    \/ ~ResumePending /\ JanEnsure /\ Log(Rec("ensure", 0, 0, 0, 0, 0, 0, 0, 0))
    \/ ~ResumePending /\ JanEvictStep /\ Log(Rec("evstep", 0, 0, 0, 0, 0, 0, 0, 0))
    \/ \E l \in Limits : ~ResumePending /\ (~Bias \/ NoLimitChangeYet) /\ SetLimit(l) /\ Log(Rec("setlimit", 0, 0, 0, 0, 0, 0, l, 0))

GenSpec == GenInit /\ [][GenNext]_<<vars, hist>>

PrintHist == (TLCGet("level") # Depth) \/ PrintT(<<"HIST", ToJson(hist)>>)
=============================================================================
