"""Shared machinery for the reservoir verification checks (python3 stdlib only).

TLC wrappers (exhaustive check, simulate-for-replay, trace validation), Go harness builds from
/repo's current working tree with -tags verif, evidence writing and known-findings handling.
"""
import json, os, re, shutil, subprocess, sys, tempfile, time, hashlib

VERIF = os.path.dirname(os.path.dirname(os.path.abspath(__file__)))
REPO = os.environ.get("VERIF_REPO", "/repo")
SPEC = os.path.join(VERIF, "spec")
HARNESS = os.path.join(VERIF, "harness")
TLA_CP = "/opt/veriftools/tla/tla2tools.jar:/opt/veriftools/tla/CommunityModules-deps.jar"
GO = shutil.which("go1.26") or "/usr/local/bin/go1.26"

GOENV = dict(os.environ, GOFLAGS="-mod=mod", GOPROXY="off", GOSUMDB="off", GOTOOLCHAIN="local",
             CGO_ENABLED=os.environ.get("CGO_ENABLED", "1"))


class Inconclusive(Exception):
    """Something that is not a verdict (tool failure, timeout, dead driver): exit 2."""


def seed():
    try:
        return int(os.environ.get("VERIF_SEED", "1"))
    except ValueError:
        return 1


def scratch(prefix="verif-"):
    return tempfile.mkdtemp(prefix=prefix)


# --------------------------------------------------------------------------- TLC

def _spec_copy(dst, extra_files=None):
    for f in os.listdir(SPEC):
        if f.endswith(".tla"):
            shutil.copy(os.path.join(SPEC, f), dst)
    for name, text in (extra_files or {}).items():
        with open(os.path.join(dst, name), "w") as fh:
            fh.write(text)


def _java(args, cwd, timeout, heap=None, props=None):
    cmd = ["java", "-XX:+UseParallelGC"]
    if heap:
        cmd.append("-Xmx" + heap)
    cmd.append("-Xss64m")
    # TLC unpacks its standard modules into java.io.tmpdir (tlc-<n>/): keep that inside the run's scratch directory
    cmd.append("-Djava.io.tmpdir=" + cwd)
    for p in props or []:
        cmd.append("-D" + p)
    cmd += ["-cp", TLA_CP, "tlc2.TLC"] + args
    try:
        p = subprocess.run(cmd, cwd=cwd, stdout=subprocess.PIPE, stderr=subprocess.STDOUT, timeout=timeout, text=True)
    except subprocess.TimeoutExpired as e:
        out = e.stdout or ""
        if isinstance(out, bytes):
            out = out.decode("utf-8", "replace")
        return 124, out
    return p.returncode, p.stdout


def cfg_text(constants, spec="Spec", invariants=(), properties=(), constraint=None, view=None,
             deadlock=False, postcondition=None, extra=""):
    lines = ["CONSTANTS"]
    for k, v in constants.items():
        if isinstance(v, str) and v.startswith("<-"):
            lines.append("    %s %s" % (k, v))
        else:
            lines.append("    %s = %s" % (k, tla_value(v)))
    lines.append("SPECIFICATION %s" % spec)
    if invariants:
        lines.append("INVARIANTS " + " ".join(invariants))
    if properties:
        lines.append("PROPERTIES " + " ".join(properties))
    if constraint:
        lines.append("CONSTRAINT " + constraint)
    if view:
        lines.append("VIEW " + view)
    if postcondition:
        lines.append("POSTCONDITION " + postcondition)
    lines.append("CHECK_DEADLOCK %s" % ("TRUE" if deadlock else "FALSE"))
    if extra:
        lines.append(extra)
    return "\n".join(lines) + "\n"


def tla_value(v):
    if isinstance(v, bool):
        return "TRUE" if v else "FALSE"
    if isinstance(v, int):
        return str(v)
    if isinstance(v, str):
        return '"%s"' % v
    if isinstance(v, (set, frozenset)):
        return "{" + ", ".join(sorted(tla_value(x) for x in v)) + "}"
    if isinstance(v, (list, tuple)):
        return "<<" + ", ".join(tla_value(x) for x in v) + ">>"
    raise ValueError(v)


def tlc_check(module, cfg, workers=16, timeout=600, coverage=False, heap="24g", extra_files=None):
    """Exhaustive model checking. Returns dict(ok, states, distinct, depth, violated, out, actions)."""
    d = scratch("tlc-")
    try:
        files = dict(extra_files or {})
        files["MC.cfg"] = cfg
        _spec_copy(d, files)
        args = ["-workers", str(workers), "-metadir", os.path.join(d, "md"), "-config", "MC.cfg"]
        if coverage:
            args += ["-coverage", "1"]
        args.append(module + ".tla")
        t0 = time.time()
        rc, out = _java(args, d, timeout, heap=heap)
        res = {"rc": rc, "out": out, "wall": time.time() - t0}
        m = re.search(r"(\d+) states generated, (\d+) distinct states found, (\d+) states left", out)
        if m:
            res["states"], res["distinct"], res["left"] = int(m.group(1)), int(m.group(2)), int(m.group(3))
        m = re.search(r"depth of the complete state graph search is (\d+)", out)
        if m:
            res["depth"] = int(m.group(1))
        res["violated"] = re.findall(r"Error: Invariant (\S+) is violated", out) + \
            re.findall(r"Error: Action property (\S+) is violated", out) + \
            (["Deadlock"] if "Error: Deadlock reached" in out else []) + \
            (["Temporal"] if "Error: Temporal properties were violated" in out else [])
        res["complete"] = rc == 0 and "Model checking completed. No error has been found" in out
        if coverage:
            acts = {}
            for m in re.finditer(r"^<(\w+) line \d+, col \d+ to line \d+, col \d+ of module (\w+)>: (\d+):(\d+)", out, re.M):
                acts[m.group(1)] = acts.get(m.group(1), 0) + int(m.group(4))
            res["actions"] = acts
        res["trace_actions"] = re.findall(r"^State \d+: <(\w+)[ (]", out, re.M)
        return res
    finally:
        shutil.rmtree(d, ignore_errors=True)


def tlc_simulate(module, cfg, num, depth, seed_, timeout=300, extra_files=None):
    """Random walks of the generator module; returns the list of printed histories."""
    d = scratch("tlcsim-")
    try:
        files = dict(extra_files or {})
        files["Gen.cfg"] = cfg
        _spec_copy(d, files)
        args = ["-workers", "1", "-simulate", "num=%d" % num, "-depth", str(depth), "-seed", str(seed_),
                "-metadir", os.path.join(d, "md"), "-config", "Gen.cfg", module + ".tla"]
        rc, out = _java(args, d, timeout, heap="4g")
        hists = []
        for line in out.splitlines():
            if line.startswith('<<"HIST", '):
                body = line[len('<<"HIST", '):].rstrip()
                if body.endswith(">>"):
                    body = body[:-2]
                try:
                    hists.append(json.loads(json.loads(body)))
                except Exception as e:  # pragma: no cover
                    raise Inconclusive("cannot parse TLC history: %s: %s" % (e, body[:200]))
        if not hists:
            raise Inconclusive("TLC simulation produced no behaviours (rc=%s):\n%s" % (rc, out[-3000:]))
        # In simulation mode TLC evaluates the printing invariant on every successor of the walk's last state, so one
        # walk prints a run of histories that differ only in their final step. Keep one per walk (chosen by the seed),
        # otherwise the first `num` histories would come from a handful of walks.
        import random
        rnd = random.Random(seed_)
        groups = []
        for h in hists:
            if groups and len(groups[-1][0]) == len(h) and groups[-1][0][:-1] == h[:-1]:
                groups[-1].append(h)
            else:
                groups.append([h])
        return [rnd.choice(g) for g in groups]
    finally:
        shutil.rmtree(d, ignore_errors=True)


def tlc_traps(module, cfg, timeout=120, workers=8, extra_files=None):
    """Exhaustive search of a generator module with trap printing; returns {trap index: [history,...]}."""
    d = scratch("tlctrap-")
    try:
        files = dict(extra_files or {})
        files["Trap.cfg"] = cfg
        _spec_copy(d, files)
        args = ["-workers", str(workers), "-metadir", os.path.join(d, "md"), "-config", "Trap.cfg", module + ".tla"]
        rc, out = _java(args, d, timeout, heap="16g")
        traps = {}
        for line in out.splitlines():
            if line.startswith('<<"TRAP", '):
                m = re.match(r'<<"TRAP", (\d+), (".*")>>\s*$', line)
                if not m:
                    continue
                try:
                    traps.setdefault(int(m.group(1)), []).append(json.loads(json.loads(m.group(2))))
                except Exception:
                    continue
        ms = re.search(r"(\d+) states generated, (\d+) distinct states found", out)
        return traps, {"rc": rc, "states": int(ms.group(1)) if ms else 0, "distinct": int(ms.group(2)) if ms else 0,
                       "tail": out[-1500:]}
    finally:
        shutil.rmtree(d, ignore_errors=True)


def tlc_validate(module, cfg, trace_path, timeout=600, extra_files=None, dfs=False):
    """Trace validation. The trace module prints <<"TRACE-RESULT", consumed, total, bad>>."""
    d = scratch("tlctr-")
    try:
        files = dict(extra_files or {})
        files["Trace.cfg"] = cfg
        _spec_copy(d, files)
        shutil.copy(trace_path, os.path.join(d, "trace.ndjson"))
        args = ["-workers", "1", "-metadir", os.path.join(d, "md"), "-config", "Trace.cfg", module + ".tla"]
        props = ["tlc2.tool.queue.IStateQueue=StateDeque"] if dfs else []
        t0 = time.time()
        rc, out = _java(args, d, timeout, heap="8g", props=props)
        if '"TRACE-RESULT"' not in out and rc != 124:
            # a JVM that dies under load (many validations in parallel) is not a verdict: once more, alone
            time.sleep(2)
            rc, out = _java(args, d, timeout, heap="8g", props=props)
        m = re.search(r'<<\s*"TRACE-RESULT",\s*(\d+),\s*(\d+),\s*(\[.*?\])\s*>>\s*\n', out, re.S)
        if not m:
            raise Inconclusive("trace validation gave no result (rc=%s):\n%s" % (rc, out[-4000:]))
        consumed, total, badtxt = int(m.group(1)), int(m.group(2)), m.group(3)
        bad = None
        mb = re.search(r"line\s*\|->\s*(\d+)", badtxt)
        if mb and int(mb.group(1)) > 0:
            cats = re.findall(r'"(\w+)"', badtxt.split("cats", 1)[1]) if "cats" in badtxt else []
            cats = re.findall(r'"(\w+)"', re.search(r"cats\s*\|->\s*\{([^}]*)\}", badtxt).group(1))
            bad = {"line": int(mb.group(1)), "cats": sorted(set(cats)), "model": " ".join(badtxt.split())[:3000]}
        allbad = []
        ma = re.search(r'<<\s*"TRACE-ALL",(.*?)<<\s*"TRACE-RESULT"', out, re.S)
        if ma:
            # TLC prints record fields in its own order: accept line/cats in either order
            for mm in re.finditer(r"\[([^\[\]]*)\]", ma.group(1)):
                ml, mc = re.search(r"line\s*\|->\s*(\d+)", mm.group(1)), re.search(r"cats\s*\|->\s*\{([^}]*)\}", mm.group(1))
                if ml and mc:
                    allbad.append({"line": int(ml.group(1)), "cats": sorted(re.findall(r'"(\w+)"', mc.group(1)))})
        ms = re.search(r"(\d+) states generated, (\d+) distinct states found", out)
        return {"allbad": allbad, "consumed": consumed, "total": total, "bad": bad, "wall": time.time() - t0,
                "states": int(ms.group(1)) if ms else 0, "distinct": int(ms.group(2)) if ms else 0, "out": out}
    finally:
        shutil.rmtree(d, ignore_errors=True)


# --------------------------------------------------------------------------- Go harness

_built = {}


def overlay_file(workdir):
    """-overlay JSON supplying files this checkout lacks (generated CSP constant)."""
    target = os.path.join(REPO, "webserver/dashboard/csp/csp_header.go")
    gen = [f for f in os.listdir(os.path.join(REPO, "webserver/dashboard/csp")) if f.endswith(".go")]
    has = False
    for f in gen:
        try:
            if re.search(r"\bHeader\b\s*(=|string)", open(os.path.join(REPO, "webserver/dashboard/csp", f)).read()):
                has = True
        except OSError:
            pass
    if has:
        return None
    stub = os.path.join(VERIF, "overlay", "csp_stub.go")
    ov = {"Replace": {os.path.join(REPO, "webserver/dashboard/csp/zz_verif_stub.go"): stub}}
    p = os.path.join(workdir, "overlay.json")
    json.dump(ov, open(p, "w"))
    return p


def go_build(cmd_name, race=False, tags="verif", overlay=False):
    """Builds harness/cmd/<cmd_name> against /repo's working tree; returns the binary path."""
    key = (cmd_name, race, tags, overlay)
    if key in _built:
        return _built[key]
    outdir = os.path.join(VERIF, ".build")
    os.makedirs(outdir, exist_ok=True)
    shutil.copy(os.path.join(REPO, "go.sum"), os.path.join(HARNESS, "go.sum"))
    binp = os.path.join(outdir, cmd_name + ("-race" if race else "") + ("-notag" if not tags else ""))
    cmd = [GO, "build", "-o", binp]
    if tags:
        cmd += ["-tags", tags]
    if race:
        cmd.append("-race")
    if overlay:
        ov = overlay_file(outdir)
        if ov:
            cmd += ["-overlay", ov]
    cmd.append("./cmd/" + cmd_name)
    p = subprocess.run(cmd, cwd=HARNESS, env=GOENV, stdout=subprocess.PIPE, stderr=subprocess.STDOUT, text=True)
    if p.returncode != 0:
        raise Inconclusive("go build %s failed:\n%s" % (cmd_name, p.stdout[-4000:]))
    _built[key] = binp
    return binp


def run_driver(binp, args, cwd=None, timeout=600, env=None, stdin=None):
    d = cwd or scratch("drv-")
    e = dict(os.environ)
    e.update(env or {})
    try:
        p = subprocess.run([binp] + args, cwd=d, stdout=subprocess.PIPE, stderr=subprocess.PIPE, timeout=timeout,
                           text=True, env=e, input=stdin)
    except subprocess.TimeoutExpired:
        raise Inconclusive("driver %s timed out after %ss" % (os.path.basename(binp), timeout))
    return p.returncode, p.stdout, p.stderr, d


# --------------------------------------------------------------------------- evidence / findings

def known_findings():
    p = os.path.join(VERIF, "known_findings.json")
    if not os.path.exists(p):
        return []
    return json.load(open(p)).get("findings", [])


def known_for(prop):
    return [f for f in known_findings() if f.get("property") == prop and f.get("status") == "known"]


def write_evidence(prop, tier, level, coverage, wall, violations=0, assumptions=()):
    ev = {"property_id": prop, "tier": tier, "seed": seed(), "level": level, "coverage": coverage,
          "assumptions": list(assumptions), "wall_s": round(wall, 2), "violations": violations}
    os.makedirs(os.path.join(VERIF, "evidence"), exist_ok=True)
    with open(os.path.join(VERIF, "evidence", prop + ".json"), "w") as fh:
        json.dump(ev, fh, indent=1, sort_keys=True)
    return ev


def save_replay(prop, name, payload):
    d = os.path.join(VERIF, "evidence", "replays", prop)
    os.makedirs(d, exist_ok=True)
    p = os.path.join(d, name)
    with open(p, "w") as fh:
        if isinstance(payload, str):
            fh.write(payload)
        else:
            json.dump(payload, fh, indent=1)
    return p


def digest(obj):
    return hashlib.sha1(json.dumps(obj, sort_keys=True).encode()).hexdigest()[:12]
