"""C07 end to end: the Range values enumerated by TLC from spec/RangeSpec.tla are sent through the real proxy for stored
bodies of several sizes (the origin ignores Range, so every answer is cut or refused by the proxy); status line,
Content-Range, Content-Length and body are condensed into the outcome form of RangeSpec.Allowed and judged by TLC."""
import json, os, re, shutil
import vlib, inputfam

E2E_SIZES = [1, 2, 10, 1000]


def one(maxlen, backend, transport="plain", retry_invalid=False, origin416=False):
    d = vlib.scratch("rangee2e-")
    try:
        consts = dict(MaxLen=maxlen, Sizes=set(E2E_SIZES), Toks=inputfam.RANGE_TOKS, UnitPrefixes=inputfam.RANGE_PREFIXES, IfRangeOn=True, FullOK=origin416,
                      CaseFile=os.path.join(d, "cases.ndjson"), ResultFile=os.path.join(d, "res.ndjson"))
        cfg = vlib.cfg_text(consts, spec="Spec")
        r = vlib.tlc_check("RangeGen", cfg, timeout=600, workers=1)
        cases = os.path.join(d, "cases.ndjson")
        if not os.path.exists(cases):
            raise vlib.Inconclusive("RangeGen produced no cases: %s" % r["out"][-1500:])
        ncases = sum(1 for _ in open(cases))
        binp = vlib.go_build("relaydrv")
        rc, out, err, _ = vlib.run_driver(binp, ["-mode", "range", "-backend", backend, "-in", cases, "-out", os.path.join(d, "res.ndjson"),
                                                 "-sizes", ",".join(map(str, E2E_SIZES)), "-transport", transport] + (["-retry-invalid-range"] if retry_invalid else []) + (["-origin416"] if origin416 else []), cwd=d, timeout=2400)
        if rc != 0 or "relaydrv done" not in out:
            raise vlib.Inconclusive("relaydrv range failed (rc=%s): %s" % (rc, err[-1500:]))
        r2 = vlib.tlc_check("RangeJudge", cfg, timeout=1800, workers=1, heap="24g")
        m = re.search(r'<<\s*"RANGE-RESULT",\s*(\d+),\s*(\d+),(.*)>>\s*\n', r2["out"], re.S)
        if not m:
            raise vlib.Inconclusive("range judge gave no result: %s" % r2["out"][-2000:])
        outcomes, sample = {}, []
        for i, line in enumerate(open(os.path.join(d, "res.ndjson"))):
            x = json.loads(line)
            outcomes[x["out"][0]] = outcomes.get(x["out"][0], 0) + 1
            if i % 7919 == 0 and len(sample) < 8:
                sample.append({"value": x["v"], "size": x["size"], "out": x["out"]})
        return dict(name="range_end_to_end_%s_%s%s" % (backend, transport, ("_retry_invalid" if retry_invalid else "") + ("_origin416" if origin416 else "")), evaluations=int(m.group(1)), distinct=ncases, bad=int(m.group(2)),
                    detail=" ".join(m.group(3).split())[:4000], sample=sample, outcomes=outcomes)
    finally:
        shutil.rmtree(d, ignore_errors=True)


def run(tier, seed):
    if tier == "quick":
        return [one(3, "memory"), one(2, "memory", "tunnel"), one(2, "memory", "plain", True), one(3, "memory", "plain", False, True)]
    return [one(4, "memory"), one(3, "file"), one(3, "memory", "tunnel"), one(3, "memory", "plain", True), one(2, "file", "tunnel", True),
            one(4, "memory", "plain", False, True), one(3, "file", "tunnel", False, True)]
