----------------------------- MODULE TunnelGen -----------------------------
(* Sequences of exchanges for replay on the real proxy: every sequence up to MaxLen over Kinds (exhaustive,  *)
(* written as NDJSON), the ways they are run are the driver's: one shared tunnel, one tunnel per exchange,   *)
(* plain HTTP.                                                                                                *)
EXTENDS Tunnel, Json, IOUtils, SequencesExt
CONSTANTS SeqFile, MinLen
RECURSIVE SeqsOf(_)
SeqsOf(len) == IF len = 0 THEN {<<>>} ELSE {Append(s, k) : s \in SeqsOf(len - 1), k \in Kinds}
AllSeqs == UNION {SeqsOf(len) : len \in MinLen..MaxLen}
\* a sequence is interesting if two neighbouring exchanges differ
Interesting(s) == Len(s) >= 2 /\ \E i \in 1..(Len(s) - 1) : s[i] # s[i + 1]
SeqList == SetToSeq({s \in AllSeqs : Interesting(s)})
WriteSeqs == ndJsonSerialize(SeqFile, [i \in 1..Len(SeqList) |-> [s |-> i, kinds |-> SeqList[i],
                 tracked |-> SetToSeq(Tracked),
                 defs |-> [j \in 1..Len(SeqList[i]) |->
                             LET kd == KDef(SeqList[i][j]) d == Def(kd.res)
                             IN [res |-> kd.res, method |-> kd.method, range |-> kd.range, rbody |-> kd.rbody, expect |-> kd.expect, status |-> d.status,
                                 hdrs |-> SetToSeq(d.hdrs), body |-> d.body]]]])
ASSUME WriteSeqs
VARIABLE dummy
GenSpec == dummy = 0 /\ [][FALSE]_dummy
=============================================================================
