"""C08 Relayed traffic is faithful in both directions (spec/Relay.tla; relay categories of spec/ProxyTrace.tla)."""
import json, time
import vlib, relayfam, proxyfam

RULE = ("TLC enumerates relay cases from the reference vocabulary of spec/Relay.tla (7 methods x request bodies none/sized/chunked/1 MiB; 8 path "
        "spellings x 5 queries; every subset of size <=2 and the full set of 13 request header features and 11 response header features: repeated "
        "fields, mixed-case spellings, Connection-nominated names, the standard hop-by-hop fields, Authorization/Cookie/User-Agent/Accept-Encoding; "
        "10 statuses incl. redirects; response bodies empty/sized/chunked/1 MiB; gzip pass-through) on both transports; a raw-socket client sends "
        "each request through the real proxy (plain, and CONNECT + TLS with a real PrivateCA), the origin records what arrived, storable GETs are "
        "asked twice (second answer from the store); TLC judges every case against Arrive(items, name): status, method, raw path, query, bodies and "
        "per-field value sequences. The retry_on_range_416 replay family adds the origin-status/relay categories of ProxyTrace. "
        "distinct_nontrivial = relay cases.")
ASSUME = ["fields outside the vocabulary (Date, Via, X-Cache, Age, Cache-Status, ETag/Last-Modified supplied by the proxy) are not judged",
          "a response field the origin did not send may be added by the proxy (e.g. a sniffed Content-Type); request fields must arrive unchanged",
          "whether a body is framed by Content-Length or chunked is not judged, only its bytes and a Content-Length the origin sent"]


def known_match(b, known):
    for k in known:
        m = k.get("match", {})
        if m.get("tr", b["case"]["tr"]) == b["case"]["tr"] and set(m.get("sf_all", [])) <= set(b["case"]["sf"]) and set(b["cats"]) <= set(m.get("only_cats", [])) \
                and set(b["resp"]) <= set(m.get("only_names", [])) and not b["req"]:
            return k
    return None


def run(tier, seed):
    t0 = time.time()
    known = vlib.known_for("C08")
    viol, parts, samples, seen_known = [], [], [], {}
    runs = [("memory", {"A", "B", "C", "D", "E", "F", "G"})] + ([("file", {"A", "C", "D", "F"})] if tier == "thorough" else [("file", {"A", "F"})])
    for backend, slices in runs:
        r = relayfam.relay_run(slices, backend=backend)
        real = []
        for b in r["bad"]:
            k = known_match(b, known)
            if k:
                seen_known.setdefault(k["what"], 0)
                seen_known[k["what"]] += 1
            else:
                real.append(b)
        parts.append({"name": "relay_cases_" + backend, "cases": r["cases"], "bad": len(real), "known": len(r["bad"]) - len(real),
                      "per_slice": r["per_slice"], "second_answers": r["second_answers"], "answered_from_store": r["hits"]})
        samples = samples or r["sample"]
        if r["nbad"] > len(r["bad"]):
            real.append({"id": 0, "cats": ["more_than_listed"], "req": [], "resp": [], "case": {}, "observed": None})
        bycat = {}
        for b in real:
            bycat.setdefault(tuple(sorted(b["cats"])), []).append(b)
        for cats, bs in bycat.items():
            print("mismatch %s in %d cases (%s); first: case %s observed %s" % (",".join(cats), len(bs), backend, json.dumps(bs[0]["case"]),
                                                                              json.dumps(bs[0]["observed"])[:900]))
            viol.append(vlib.save_replay("C08", "relay-%s-%s-seed%d.json" % (backend, "+".join(cats)[:80], seed),
                                         {"kind": "relaydrv", "backend": backend, "cats": list(cats), "count": len(bs), "first": bs[:3]}))
    # status / relayed-body categories of the proxy replay (a 416 that was retried must not keep its status, ...)
    from props.proxycommon import confirmed
    vlib.go_build("proxydrv")
    px = []
    for i, f in enumerate(proxyfam.retry_families() + proxyfam.policy_families()[:2]):
        r = proxyfam.run_family(f, 30 if tier == "quick" else 250, seed * 1000 + 800 + i)
        px.append({k: r[k] for k in ("family", "behaviours", "lines", "consumed")})
        done = set()
        for p in r["problems"]:
            if "C08" in p["props"] and (p["event"].get("a"), tuple(p["cats"])) not in done and confirmed(f, p, "C08"):
                done.add((p["event"].get("a"), tuple(p["cats"])))
                viol.append(vlib.save_replay("C08", "%s-%s-seed%d.json" % (f["name"], vlib.digest(p["replay_input"]), seed),
                                             {"kind": "proxydrv", "problem": {k: p[k] for k in ("props", "cats", "line", "event", "context", "kind")},
                                              "input": p["replay_input"]}))
    for what, n in seen_known.items():
        print("KNOWN-FINDING: property=C08 %s (%d cases)" % (what, n))
    ncases = sum(p["cases"] for p in parts)
    cov = {"evaluations": ncases + sum(p["second_answers"] for p in parts), "distinct_nontrivial": ncases, "exhaustive": True, "rule": RULE,
           "parts": parts, "samples": samples[:4], "proxy_replay_families": px, "known_findings_seen": seen_known}
    vlib.write_evidence("C08", tier, "exploration", cov, time.time() - t0, len(viol), ASSUME)
    return viol


def replay(path):
    art = json.load(open(path))
    if art.get("kind") == "proxydrv":
        from props.proxycommon import replay_file
        return replay_file("C08", path)
    print(json.dumps(art, indent=1)[:3000])
    return run("quick", vlib.seed())
