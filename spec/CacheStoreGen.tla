---------------------------- MODULE CacheStoreGen ----------------------------
(* Behaviour generator for replay (specification -> code): CacheStore's actions, each        *)
(* recording itself in the history variable hist; TLC -simulate prints one JSON behaviour     *)
(* per random walk when the walk reaches Depth.                                               *)
EXTENDS MCCacheStore, Json

CONSTANT Depth
VARIABLE hist

Rec(a, p, k, n, f, h, e, l, r) ==
    [a |-> a, p |-> p, k |-> k, n |-> n, f |-> f, h |-> h, e |-> e, l |-> l, r |-> r,
     la |-> [x \in Keys |-> entries'[x].la], clk |-> clock']

Log(r) == hist' = Append(hist, r)
B(p) == IF pc[p] = "blocked" THEN 1 ELSE 0

GenInit == Init /\ hist = <<>>

GenNext ==
    \/ \E p \in Clients, k \in Keys, n \in 0..MaxChunks, f \in -1..(MaxChunks-1) :
          StoreBegin(p, k, n, f) /\ Log(Rec("store", p, k, n, f, 0, 0, 0, B(p)))
    \/ \E p \in Clients : StoreChunk(p) /\ Log(Rec("chunk", p, 0, 0, 0, 0, 0, 0, 0))
    \/ \E p \in Clients : StoreAbort(p) /\ Log(Rec("abort", p, 0, 0, 0, 0, 0, 0, 0))
    \/ \E p \in Clients : StoreCommit(p) /\ Log(Rec("commit", p, 0, 0, 0, 0, 0, 0, 0))
    \/ \E p \in Clients, k \in Keys : Get(p, k) /\ Log(Rec("get", p, k, 0, 0, 0, 0, 0, B(p)))
    \/ \E p \in Clients, k \in Keys : Delete(p, k) /\ Log(Rec("delete", p, k, 0, 0, 0, 0, 0, B(p)))
    \/ \E h \in 1..MaxHandles : Read(h) /\ Log(Rec("read", 0, 0, 0, 0, h, 0, 0, 0))
    \/ \E h \in 1..MaxHandles : CloseH(h) /\ Log(Rec("close", 0, 0, 0, 0, h, 0, 0, 0))
    \/ \E p \in Clients, k \in Keys, e \in BOOLEAN :
          UpdateMeta(p, k, e) /\ Log(Rec("update", p, k, 0, 0, 0, IF e THEN 1 ELSE 0, 0, B(p)))
    \/ \E p \in Clients, c \in Calls :
          Block(p, c) /\ Log(Rec(c[1], p, c[2], IF c[1] = "store" THEN c[3] ELSE 0,
                                 IF c[1] = "store" THEN c[4] ELSE 0, 0,
                                 IF c[1] = "update" /\ c[3] THEN 1 ELSE 0, 0, 0))
    \/ \E k \in Keys : Expire(k) /\ Log(Rec("expire", 0, k, 0, 0, 0, 0, 0, 0))
    \/ \E k \in Keys : JanRemove(k) /\ Log(Rec("jremove", 0, k, 0, 0, 0, 0, 0, 0))
    \/ JanScan /\ Log(Rec("scan", 0, 0, 0, 0, 0, 0, 0, 0))
    \/ JanEnsure /\ Log(Rec("ensure", 0, 0, 0, 0, 0, 0, 0, 0))
    \/ JanEvictStep /\ Log(Rec("evstep", 0, 0, 0, 0, 0, 0, 0, 0))
    \/ \E l \in Limits : SetLimit(l) /\ Log(Rec("setlimit", 0, 0, 0, 0, 0, 0, l, 0))

GenSpec == GenInit /\ [][GenNext]_<<vars, hist>>

PrintHist == (TLCGet("level") # Depth) \/ PrintT(<<"HIST", ToJson(hist)>>)
=============================================================================
