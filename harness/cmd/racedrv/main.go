// racedrv runs the operation mixes of TLC-generated behaviours as free-running goroutines (no gating,
// no harness synchronisation between them) against the real cache, proxy, event bus, config, session
// table and CA, in a binary built with -race. The Go race detector is the oracle (C15); this program
// only generates load whose shape comes from the specifications.
package main

import (
	"bytes"
	"context"
	"crypto/ecdsa"
	"crypto/elliptic"
	"crypto/rand"
	"crypto/tls"
	"crypto/x509"
	"crypto/x509/pkix"
	"encoding/json"
	"encoding/pem"
	"flag"
	"fmt"
	"io"
	"math/big"
	"net/http"
	"net/http/httptest"
	"net/url"
	"os"
	"strconv"
	"sync"
	"time"

	"reservoir/cache"
	"reservoir/config"
	"reservoir/proxy"
	"reservoir/proxy/certs"
	"reservoir/utils/bytesize"
	"reservoir/utils/duration"
	"reservoir/utils/event"
	"reservoir/webserver/auth"
)

type Step map[string]any

func num(s Step, k string) int {
	if v, ok := s[k].(float64); ok {
		return int(v)
	}
	return 0
}

type fakeCA struct{}

func (fakeCA) GetCertForHost(string) (*tls.Certificate, error) { return nil, fmt.Errorf("no CA") }

func cachePhase(backend string, behaviours [][]Step, dir string) {
	for bi, steps := range behaviours {
		cfg := config.NewDefault()
		cfg.Cache.MaxCacheSize.Overwrite(bytesize.ByteSize(3 * 4096))
		ctx, cancel := context.WithCancel(context.Background())
		var c cache.Cache[int]
		var vc cache.VerifCache
		if backend == "file" {
			fc := cache.NewFileCache[int](cfg, fmt.Sprintf("%s/rc-%d", dir, bi%4), 3*4096, time.Hour, 4, ctx)
			c, vc = fc, fc
		} else {
			mc := cache.NewMemoryCache[int](cfg, 75, 3*4096, time.Hour, 4, ctx)
			c, vc = mc, mc
		}
		per := map[int][]Step{}
		for _, st := range steps {
			per[num(st, "p")] = append(per[num(st, "p")], st)
		}
		var wg sync.WaitGroup
		key := func(k int) cache.CacheKey { return cache.FromString("race-key-" + strconv.Itoa(k)) }
		for p, ops := range per {
			if p == 0 {
				continue
			}
			wg.Add(1)
			go func(ops []Step) {
				defer wg.Done()
				for round := 0; round < 3; round++ {
					for _, st := range ops {
						k := num(st, "k")
						if k == 0 {
							k = 1
						}
						switch st["a"] {
						case "store":
							c.Cache(key(k), bytes.NewReader(make([]byte, 2048*num(st, "n"))), time.Now().Add(time.Duration(round-1)*time.Hour), round)
						case "get":
							// (reads of the returned metadata are what the proxy does after a lookup)
							if e, err := c.Get(key(k)); err == nil {
								_ = e.Metadata.Expires.After(time.Now())
								_ = e.Metadata.Size + int64(e.Metadata.Object)
								_ = e.Metadata.LastAccess
								io.Copy(io.Discard, e.Data)
								e.Data.Close()
							}
							if m, _, err := c.GetMetadata(key(k)); err == nil {
								_ = m.TimeWritten
							}
						case "delete":
							c.Delete(key(k))
						case "update":
							c.UpdateMetadata(key(k), func(m *cache.EntryMetadata[int]) { m.Expires = time.Now().Add(time.Duration(round-1) * time.Minute) })
						}
					}
				}
			}(ops)
		}
		// janitor cycles, limit / interval / budget changes alongside
		wg.Add(2)
		go func() {
			defer wg.Done()
			for i := 0; i < 6; i++ {
				vc.VerifCleanupCycle()
			}
		}()
		go func() {
			defer wg.Done()
			for i := 0; i < 4; i++ {
				cfg.Cache.MaxCacheSize.Overwrite(bytesize.ByteSize((2 + i%2) * 4096))
				cfg.Cache.Memory.MemoryBudgetPercent.Overwrite(50 + i)
				cfg.Cache.CleanupInterval.Overwrite(duration.Duration(time.Duration(30+i) * time.Minute))
			}
		}()
		wg.Wait()
		c.Destroy()
		cancel()
	}
}

func proxyPhase(backend string, dir string, rounds int) {
	var ver int64 = 1
	var mu sync.Mutex
	origin := httptest.NewServer(http.HandlerFunc(func(w http.ResponseWriter, r *http.Request) {
		mu.Lock()
		v := ver
		mu.Unlock()
		if r.Header.Get("If-None-Match") == fmt.Sprintf("\"v%d\"", v) {
			w.WriteHeader(304)
			return
		}
		if r.URL.Query().Get("nodate") != "" {
			w.Header()["Date"] = nil
		}
		w.Header().Set("ETag", fmt.Sprintf("\"v%d\"", v))
		w.Header().Set("Cache-Control", "max-age=1")
		w.Write(bytes.Repeat([]byte("x"), 4096))
	}))
	defer origin.Close()
	cfg := config.NewDefault()
	cfg.Proxy.UpstreamDefaultHttps.Overwrite(false)
	cfg.Proxy.CachePolicy.IgnoreCacheControl.Overwrite(false)
	cfg.Proxy.CachePolicy.ForceDefaultMaxAge.Overwrite(false)
	cfg.Cache.File.Dir.Overwrite(dir + "/rp")
	if backend == "file" {
		cfg.Cache.Type.Overwrite(config.CacheTypeFile)
	}
	cfg.Cache.LockShards.Overwrite(8)
	ctx, cancel := context.WithCancel(context.Background())
	defer cancel()
	p, err := proxy.NewProxy(cfg, fakeCA{}, ctx)
	if err != nil {
		panic(err)
	}
	ps := httptest.NewServer(p)
	defer ps.Close()
	defer p.Destroy()
	pu, _ := url.Parse(ps.URL)
	var wg sync.WaitGroup
	for g := 0; g < 8; g++ {
		wg.Add(1)
		go func(g int) {
			defer wg.Done()
			cl := &http.Client{Transport: &http.Transport{Proxy: http.ProxyURL(pu), DisableCompression: true}}
			for i := 0; i < rounds; i++ {
				path := fmt.Sprintf("/r%d?nodate=%d", i%3, i%2)
				req, _ := http.NewRequest("GET", origin.URL+path, nil)
				if g%4 == 3 {
					req.Header.Set("Range", "bytes=0-99")
				}
				if resp, err := cl.Do(req); err == nil {
					io.Copy(io.Discard, resp.Body)
					resp.Body.Close()
				}
				if g == 0 && i%5 == 4 {
					p.VerifCache().VerifShift(2 * time.Second) // everything goes stale: revalidation
				}
				if g == 1 && i%7 == 6 {
					mu.Lock()
					ver++
					mu.Unlock()
					p.VerifCache().VerifCleanupCycle()
				}
				if g == 2 && i%6 == 5 {
					cfg.Proxy.CachePolicy.DefaultMaxAge.Overwrite(duration.Duration(time.Duration(1+i%3) * time.Second))
					cfg.Cache.MaxCacheSize.Overwrite(bytesize.ByteSize((8 + i%4) * 4096))
				}
			}
		}(g)
	}
	wg.Wait()
}

func eventPhase(rounds int) {
	for r := 0; r < rounds; r++ {
		var ev event.Event[int]
		prop := config.NewConfigProp(0)
		var wg sync.WaitGroup
		for g := 0; g < 4; g++ {
			wg.Add(1)
			go func(g int) {
				defer wg.Done()
				u1 := ev.Subscribe(func(v int) { _ = v })
				u2 := prop.OnChange(func(v int) { _ = v })
				for i := 0; i < 20; i++ {
					ev.Fire(i)
					prop.Overwrite(i)
					_ = prop.Read()
				}
				u1()
				u2()
			}(g)
		}
		wg.Wait()
	}
}

func sessionPhase(rounds int) {
	var wg sync.WaitGroup
	for g := 0; g < 6; g++ {
		wg.Add(1)
		go func(g int) {
			defer wg.Done()
			for i := 0; i < rounds; i++ {
				s := auth.CreateSession(int64(g))
				auth.GetSession(s.ID)
				r := httptest.NewRequest("GET", "/", nil)
				r.AddCookie(s.BuildSessionCookie())
				auth.SessionFromRequest(r)
				if i%3 == 0 {
					auth.VerifSetExpiry(s.ID, time.Now().Add(5*time.Minute))
					auth.GetSession(s.ID) // sliding extension
				}
				if i%2 == 0 {
					s.Destroy()
				}
			}
		}(g)
	}
	wg.Wait()
}

func certPhase(dir string, rounds int) {
	priv, _ := ecdsa.GenerateKey(elliptic.P256(), rand.Reader)
	tmpl := x509.Certificate{SerialNumber: big.NewInt(7), Subject: pkix.Name{Organization: []string{"race-ca"}}, NotBefore: time.Now().Add(-time.Hour),
		NotAfter: time.Now().Add(time.Hour), KeyUsage: x509.KeyUsageCertSign, BasicConstraintsValid: true, IsCA: true}
	der, _ := x509.CreateCertificate(rand.Reader, &tmpl, &tmpl, &priv.PublicKey, priv)
	os.WriteFile(dir+"/rca.crt", pem.EncodeToMemory(&pem.Block{Type: "CERTIFICATE", Bytes: der}), 0o600)
	kb, _ := x509.MarshalPKCS8PrivateKey(priv)
	os.WriteFile(dir+"/rca.key", pem.EncodeToMemory(&pem.Block{Type: "PRIVATE KEY", Bytes: kb}), 0o600)
	ca, err := certs.NewPrivateCA(dir+"/rca.crt", dir+"/rca.key")
	if err != nil {
		panic(err)
	}
	var wg sync.WaitGroup
	for g := 0; g < 8; g++ {
		wg.Add(1)
		go func(g int) {
			defer wg.Done()
			for i := 0; i < rounds; i++ {
				ca.GetCertForHost(fmt.Sprintf("host%d.example:443", i%3))
			}
		}(g)
	}
	wg.Wait()
}

func main() {
	in := flag.String("in", "", "cache behaviours JSON")
	rounds := flag.Int("rounds", 40, "load rounds for the non-cache phases")
	flag.Parse()
	var input struct {
		Behaviours [][]Step `json:"behaviours"`
	}
	raw, _ := os.ReadFile(*in)
	json.Unmarshal(raw, &input)
	dir, _ := os.Getwd()
	for _, be := range []string{"memory", "file"} {
		cachePhase(be, input.Behaviours, dir)
		proxyPhase(be, dir, *rounds)
	}
	eventPhase(*rounds / 4)
	sessionPhase(*rounds)
	certPhase(dir, *rounds/4)
	fmt.Println("racedrv done")
}
