"""Sessions (C20): TLC check, history generation, replay on the real dashboard API."""
import json, os, shutil, time
import vlib

ROUTES = set()


def mc(nsess=2, maxsteps=4, timeout=300):
    cfg = vlib.cfg_text(dict(NSessions=nsess, Routes=ROUTES, MaxSteps=maxsteps), spec="Spec", invariants=["NoSessionNoEffect"],
                        properties=["ExpiredStaysExpired"])
    r = vlib.tlc_check("Sessions", cfg, timeout=timeout)
    r["name"] = "sessions_%d_%dsteps" % (nsess, maxsteps)
    return r


def run(num, depth, seed, nsess=3, nologfile=False):
    cfg = vlib.cfg_text(dict(NSessions=nsess, Routes=ROUTES, MaxSteps=depth, Depth=depth + 1, NRoutes=11), spec="GenSpec", invariants=["PrintHist"])
    hists = vlib.tlc_simulate("SessionsGen", cfg, num + 2, depth + 1, seed)[:num]
    return replay(hists, nsess, nologfile)


def replay(hists, nsess=3, nologfile=False):
    binp = vlib.go_build("sessdrv", overlay=True)
    d = vlib.scratch("sess-")
    try:
        json.dump({"behaviours": hists}, open(os.path.join(d, "in.json"), "w"))
        rc, out, err, _ = vlib.run_driver(binp, ["-in", "in.json", "-out", "trace.ndjson"] + (["-nologfile"] if nologfile else []), cwd=d, timeout=900)
        if rc != 0:
            raise vlib.Inconclusive("sessdrv failed: %s" % err[-1500:])
        lines = [json.loads(x) for x in open(os.path.join(d, "trace.ndjson"))]
        routes = lines[0]
        body = lines[1:]
        with open(os.path.join(d, "t.ndjson"), "w") as fh:
            for ln in body:
                fh.write(json.dumps(ln) + "\n")
        tr = vlib.cfg_text(dict(NSessions=max(nsess, 9), Routes=ROUTES, MaxSteps=99999, TraceFile="trace.ndjson"), spec="TraceSpec", postcondition="Report")
        r = vlib.tlc_validate("SessionsTrace", tr, os.path.join(d, "t.ndjson"))
        problems = []
        for b in r["allbad"]:
            ln = body[b["line"] - 1]
            bi = ln.get("b")
            problems.append({"cats": b["cats"], "line": b["line"], "event": ln, "context": [x for x in body[:b["line"]] if x.get("b") == bi][-6:],
                             "replay_input": {"behaviours": [hists[bi - 1]]}})
        if r["consumed"] < r["total"]:
            ln = body[r["consumed"]]
            problems.append({"cats": ["struct"], "line": r["consumed"] + 1, "event": ln, "context": [],
                             "replay_input": {"behaviours": [hists[ln.get("b", 1) - 1]]}})
        kinds = {}
        paths = set()
        for ln in body:
            k = "%s:%s:%s" % (ln.get("kind", ln.get("a")), ln.get("status", ""), ln.get("cookie", ""))
            kinds[k] = kinds.get(k, 0) + 1
            if ln.get("path"):
                paths.add(ln["method"] + " " + ln["path"])
        return {"behaviours": len(hists), "lines": len(body), "consumed": r["consumed"], "problems": problems, "kinds": kinds,
                "routes_registered": routes.get("all"), "routes_exercised": sorted(paths), "sample": [x for x in body if x.get("b") == 1][:12]}
    finally:
        shutil.rmtree(d, ignore_errors=True)
