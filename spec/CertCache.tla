------------------------------ MODULE CertCache ------------------------------
(***************************************************************************)
(* Per-host leaf certificate issuance and reuse (proxy/certs) for C11.     *)
(* GetCertForHost is check-then-create: Lookup (valid cached certificate?  *)
(* return it), otherwise Create a fresh one and Store it.  Callers run     *)
(* concurrently, so several first requests may each create a certificate;  *)
(* every certificate handed out must be valid for the host, and once the   *)
(* callers are done the cache holds one of them, which is reused until it  *)
(* expires and replaced afterwards.                                        *)
(* Certificates are serial numbers; validity is decided outside TLA+ (the  *)
(* driver verifies names, chain, key and validity window with crypto/x509).*)
(***************************************************************************)
EXTENDS Integers, Sequences, FiniteSets, TLC

CONSTANTS Hosts, NCallers, MaxSerial

Callers == 1..NCallers
VARIABLES cache,    \* [Hosts -> 0 | serial]
          expired,  \* set of serials past their validity
          pc,       \* [Callers -> "idle" | "create" | "store"]
          job,      \* [Callers -> [host, serial]]
          next,     \* next serial to issue
          handed    \* ghost: [Hosts -> set of serials returned for the host]
vars == <<cache, expired, pc, job, next, handed>>

Init == /\ cache = [h \in Hosts |-> 0] /\ expired = {} /\ pc = [c \in Callers |-> "idle"]
        /\ job = [c \in Callers |-> [host |-> CHOOSE h \in Hosts : TRUE, serial |-> 0]]
        /\ next = 1 /\ handed = [h \in Hosts |-> {}]

\* Lookup: a valid cached certificate is returned at once, an expired one is dropped
Lookup(c, h) ==
    /\ pc[c] = "idle"
    /\ IF cache[h] # 0 /\ cache[h] \notin expired
       THEN /\ handed' = [handed EXCEPT ![h] = @ \cup {cache[h]}]
            /\ UNCHANGED <<cache, pc, job, next, expired>>
       ELSE /\ cache' = [cache EXCEPT ![h] = 0]
            /\ pc' = [pc EXCEPT ![c] = "create"]
            /\ job' = [job EXCEPT ![c] = [host |-> h, serial |-> 0]]
            /\ UNCHANGED <<next, handed, expired>>
Create(c) ==
    /\ pc[c] = "create" /\ next <= MaxSerial
    /\ job' = [job EXCEPT ![c].serial = next]
    /\ next' = next + 1
    /\ pc' = [pc EXCEPT ![c] = "store"]
    /\ UNCHANGED <<cache, expired, handed>>
Store(c) ==
    /\ pc[c] = "store"
    /\ cache' = [cache EXCEPT ![job[c].host] = job[c].serial]
    /\ handed' = [handed EXCEPT ![job[c].host] = @ \cup {job[c].serial}]
    /\ pc' = [pc EXCEPT ![c] = "idle"]
    /\ UNCHANGED <<expired, job, next>>
Expire(h) ==
    /\ cache[h] # 0 /\ cache[h] \notin expired
    /\ expired' = expired \cup {cache[h]}
    /\ UNCHANGED <<cache, pc, job, next, handed>>

Next == \/ \E c \in Callers, h \in Hosts : Lookup(c, h)
        \/ \E c \in Callers : Create(c) \/ Store(c)
        \/ \E h \in Hosts : Expire(h)
Spec == Init /\ [][Next]_vars

Quiet == \A c \in Callers : pc[c] = "idle"
\* a certificate is never handed out for two hosts, and an expired one is never handed out again
SerialsAreHostSpecific == \A h1, h2 \in Hosts : h1 # h2 => handed[h1] \cap handed[h2] = {}
CacheHoldsHandedOut == \A h \in Hosts : cache[h] # 0 => (cache[h] \in handed[h] \/ \E c \in Callers : pc[c] # "idle")
ReuseWhenQuiet == Quiet => \A h \in Hosts : cache[h] # 0 => cache[h] \in handed[h]
=============================================================================
