---------------------------- MODULE EventBusTrace ----------------------------
(***************************************************************************)
(* Judges recorded runs of the real event bus / ConfigProp (C19).  Each    *)
(* line is a step with what was observed after it: the listener calls that *)
(* are in flight ("parked": [l, v] pairs held at the harness gate), the    *)
(* value of the last completed call per listener ("seen"), and for an      *)
(* unsubscribe whether it returned or panicked.  The facts checked are the *)
(* property's own (no assumption on how delivery is implemented):          *)
(*   - unsubscribing never fails                                           *)
(*   - no call is started for a listener after its unsubscribe returned    *)
(*   - every call carries a value that was fired while the listener was    *)
(*     subscribed                                                          *)
(*   - when nothing is in flight every live listener subscribed before the *)
(*     last change has seen the latest value                               *)
(***************************************************************************)
EXTENDS Integers, Sequences, FiniteSets, TLC, Json, IOUtils

CONSTANTS TraceFile, NListeners
TraceLog == ndJsonDeserialize(TraceFile)
L == 1..NListeners

VARIABLES l, live, dead, cur, fires, subAt, known, bad, bads
tvars == <<l, live, dead, cur, fires, subAt, known, bad, bads>>

F(r, name, dflt) == IF name \in DOMAIN r THEN r[name] ELSE dflt
Line == TraceLog[l]
Is(a) == l <= Len(TraceLog) /\ Line.a = a
Parked == {<<Line.parked[i][1], Line.parked[i][2]>> : i \in 1..Len(Line.parked)}

\* calls that were not in flight before this line
NewCalls == Parked \ known
Problems(live2, dead2, fires2, cur2, subAt2) ==
    (IF F(Line, "res", "ok") # "ok" THEN {"unsubscribe_failed"} ELSE {})
    \cup (IF \E c \in NewCalls : c[1] \in dead2 THEN {"call_after_unsubscribe"} ELSE {})
    \cup (IF \E c \in NewCalls : ~(c[2] > subAt2[c[1]] /\ c[2] <= fires2) THEN {"misrouted_call"} ELSE {})
    \cup (IF Parked = {} /\ F(Line, "quiet", FALSE) /\
             (\E x \in live2 : subAt2[x] < fires2 /\ Line.seen[x] # cur2) THEN {"stale_listener"} ELSE {})

Step(live2, dead2, fires2, cur2, subAt2) ==
    /\ live' = live2 /\ dead' = dead2 /\ fires' = fires2 /\ cur' = cur2 /\ subAt' = subAt2
    /\ known' = Parked
    /\ l' = l + 1
    /\ LET p == Problems(live2, dead2, fires2, cur2, subAt2)
       IN /\ bad' = IF bad.line = 0 /\ p # {} THEN [line |-> l, cats |-> p] ELSE bad
          /\ bads' = IF bad.line = 0 /\ p # {} /\ Len(bads) < 40 THEN Append(bads, [line |-> l, cats |-> p]) ELSE bads
    /\ TLCSet(1, [l |-> l + 1, bads |-> bads'])

TReset == /\ Is("reset")
          /\ live' = {} /\ dead' = {} /\ cur' = 0 /\ fires' = 0 /\ subAt' = [x \in L |-> 0] /\ known' = {}
          /\ bad' = [line |-> 0] /\ UNCHANGED bads /\ l' = l + 1 /\ TLCSet(1, [l |-> l + 1, bads |-> bads])
TSub   == Is("sub") /\ Step(live \cup {Line.l}, dead, fires, cur, [subAt EXCEPT ![Line.l] = fires])
TUnsub == Is("unsub") /\ Step(live \ {Line.l}, dead \cup {Line.l}, fires, cur, subAt)
TFire  == Is("fire") /\ Step(live, dead, fires + 1, Line.v, subAt)
TOther == l <= Len(TraceLog) /\ Line.a \in {"complete", "quiesce", "noop"} /\ Step(live, dead, fires, cur, subAt)

TraceInit == /\ l = 1 /\ live = {} /\ dead = {} /\ cur = 0 /\ fires = 0 /\ subAt = [x \in L |-> 0] /\ known = {}
             /\ bad = [line |-> 0] /\ bads = <<>> /\ TLCSet(1, [l |-> 1, bads |-> <<>>])
TraceNext == TReset \/ TSub \/ TUnsub \/ TFire \/ TOther
TraceSpec == TraceInit /\ [][TraceNext]_tvars
Report == LET r == TLCGet(1) IN /\ PrintT(<<"TRACE-ALL", r.bads>>)
                                /\ PrintT(<<"TRACE-RESULT", r.l - 1, Len(TraceLog), [line |-> 0]>>)
=============================================================================
