#!/usr/bin/env python3
"""bin/check <ID> [--tier quick|thorough] [--replay <path>]

exit 0  the property held on everything explored (KNOWN-FINDING lines for listed findings)
exit 1  + "VIOLATION property=<id> replay=<path>" : real-code behaviour contradicts the specification
exit 2  not a verdict (tool failure, timeout, dead driver, unreproduced model counterexample)
"""
import sys, os, json, time, traceback, importlib

sys.path.insert(0, os.path.dirname(os.path.abspath(__file__)))
import vlib


def main():
    args = sys.argv[1:]
    if not args:
        print(__doc__)
        return 2
    prop = args[0]
    tier = os.environ.get("VERIF_TIER", "quick")
    replay = None
    i = 1
    while i < len(args):
        if args[i] == "--tier":
            tier = args[i + 1]
            i += 2
        elif args[i] == "--replay":
            replay = args[i + 1]
            i += 2
        else:
            i += 1
    if tier not in ("quick", "thorough"):
        tier = "quick"
    try:
        mod = importlib.import_module("props." + prop)
    except ImportError as e:
        print("no check for %s: %s" % (prop, e))
        return 2
    t0 = time.time()
    try:
        if replay:
            viol = mod.replay(replay)
        else:
            viol = mod.run(tier, vlib.seed())
    except vlib.Inconclusive as e:
        print("INCONCLUSIVE property=%s: %s" % (prop, e))
        return 2
    except Exception:
        traceback.print_exc()
        print("INCONCLUSIVE property=%s: internal error" % prop)
        return 2
    for v in viol:
        print("VIOLATION property=%s replay=%s" % (prop, v))
    print("check %s tier=%s seed=%d wall=%.1fs violations=%d" % (prop, tier, vlib.seed(), time.time() - t0, len(viol)))
    return 1 if viol else 0


if __name__ == "__main__":
    sys.exit(main())
