---------------------------- MODULE CacheKeyGen ----------------------------
EXTENDS CacheKey
VARIABLE dummy
ASSUME WriteCases
Spec == dummy = 0 /\ [][FALSE]_dummy
=============================================================================
