------------------------- MODULE SlowReadersJudge -------------------------
EXTENDS SlowReaders
VARIABLE dummy
ASSUME Judge
Spec == dummy = 0 /\ [][FALSE]_dummy
=============================================================================
