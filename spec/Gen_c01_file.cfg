CONSTANTS
    NKeys = 2
    NClients = 2
    ShardOf <- Shard11
    MaxVer = 3
    MaxChunks = 2
    Backend = "file"
    Dev = {}
    MaxHandles = 2
    MaxObj = 6
    InitLimit = 100
    Limits = {100}
    MemCap = 100
    TickMs = 170
    Weight = 0
    FailStores = TRUE
    Janitor = FALSE
    UseClock = FALSE
    Depth = 25
SPECIFICATION GenSpec
INVARIANT PrintHist
CHECK_DEADLOCK FALSE
