----------------------------- MODULE RelayGen -----------------------------
EXTENDS Relay
VARIABLE dummy
ASSUME WriteCases
Spec == dummy = 0 /\ [][FALSE]_dummy
=============================================================================
