------------------------------ MODULE EventFire ------------------------------
(***************************************************************************)
(* One announcement of utils/event.Event.Fire seen at the granularity of   *)
(* its loop (C19: "shutting components down in any order neither ...       *)
(* detaches or misroutes the notifications of the others").                *)
(* Fire takes the slice header of the listener list under the lock         *)
(* (pointer to the backing array and length) and then walks it without the *)
(* lock, handing the value to each element; listeners unsubscribe          *)
(* concurrently.  With CopyOnUnsub an Unsubscribe builds a new array, so   *)
(* the walk keeps seeing the list as it was; without it (the named         *)
(* deviation "cut the entry out in place") the elements behind the removed *)
(* one move one slot to the left under the walk's feet.                    *)
(***************************************************************************)
EXTENDS Integers, Sequences, FiniteSets, TLC

CONSTANTS NListeners, CopyOnUnsub

L == 1..NListeners
VARIABLES arr,      \* the backing array the walk reads (sequence of listener ids; its length never shrinks)
          live,     \* the current listener list (what Subscribe / Unsubscribe / the next Fire see)
          pos,      \* next index of the walk, 0 = no walk in progress
          n,        \* length taken at the start of the walk
          visited,  \* ghost: listeners handed the value by this walk, with multiplicity
          atStart,  \* ghost: listeners subscribed when the walk began
          gone      \* listeners unsubscribed since the walk began
vars == <<arr, live, pos, n, visited, atStart, gone>>

Init == arr = [i \in L |-> i] /\ live = [i \in L |-> i] /\ pos = 0 /\ n = 0
        /\ visited = [l \in L |-> 0] /\ atStart = {} /\ gone = {}

FireBegin == /\ pos = 0 /\ Len(live) > 0
             /\ arr' = live /\ n' = Len(live) /\ pos' = 1
             /\ visited' = [l \in L |-> 0] /\ atStart' = {live[i] : i \in 1..Len(live)} /\ gone' = {}
             /\ UNCHANGED live
FireStep == /\ pos > 0 /\ pos <= n
            /\ visited' = [visited EXCEPT ![arr[pos]] = @ + 1]
            /\ pos' = pos + 1
            /\ UNCHANGED <<arr, live, n, atStart, gone>>
FireEnd == pos > n /\ pos > 0 /\ pos' = 0 /\ UNCHANGED <<arr, live, n, visited, atStart, gone>>

RemoveAt(s, i) == SubSeq(s, 1, i - 1) \o SubSeq(s, i + 1, Len(s))
Unsubscribe(l) ==
    /\ \E i \in 1..Len(live) : live[i] = l
    /\ LET i == CHOOSE j \in 1..Len(live) : live[j] = l
           shorter == RemoveAt(live, i)
       IN /\ live' = shorter
          \* in place: the walk's array is the same memory; its tail keeps the old last element
          /\ arr' = IF CopyOnUnsub \/ pos = 0 THEN arr
                    ELSE [k \in 1..Len(arr) |-> IF k <= Len(shorter) THEN shorter[k] ELSE arr[k]]
    /\ gone' = IF pos > 0 THEN gone \cup {l} ELSE gone
    /\ UNCHANGED <<pos, n, visited, atStart>>

Next == FireBegin \/ FireStep \/ FireEnd \/ \E l \in L : Unsubscribe(l)
Spec == Init /\ [][Next]_vars

\* when a walk ends, every listener that stayed subscribed throughout has been handed the value exactly once
WalkReachesAllLive == (pos > n /\ pos > 0) => \A l \in atStart \ gone : visited[l] = 1
=============================================================================
