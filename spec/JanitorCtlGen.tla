--------------------------- MODULE JanitorCtlGen ---------------------------
(* Every visible schedule up to MaxLen: changes (to a value different from the current one), holding the janitor *)
(* inside a cycle and releasing it; ends released.  Exhaustive, written as NDJSON.                                *)
EXTENDS Integers, Sequences, FiniteSets, TLC, Json, IOUtils, SequencesExt
CONSTANTS Vals, MaxLen, SeqFile
Step(a, v) == [a |-> a, v |-> v]
RECURSIVE Ext(_, _, _, _)
\* all schedules extending prefix s (held?, current value) by up to n steps
Ext(s, held, cur, n) ==
    {s} \cup (IF n = 0 THEN {} ELSE
      UNION ({Ext(Append(s, Step("change", v)), held, v, n - 1) : v \in Vals \ {cur}}
             \cup {IF held THEN Ext(Append(s, Step("release", 0)), FALSE, cur, n - 1) ELSE Ext(Append(s, Step("hold", 0)), TRUE, cur, n - 1)}))
Closed(s) == LET holds == Cardinality({i \in 1..Len(s) : s[i].a = "hold"}) rels == Cardinality({i \in 1..Len(s) : s[i].a = "release"})
             IN holds = rels
Useful(s) == Cardinality({i \in 1..Len(s) : s[i].a = "change"}) >= 1
Seqs == {s \in Ext(<<>>, FALSE, 0, MaxLen) : Closed(s) /\ Useful(s)}
SeqList == SetToSeq(Seqs)
ASSUME ndJsonSerialize(SeqFile, [i \in 1..Len(SeqList) |-> [s |-> i, steps |-> SeqList[i]]])
VARIABLE dummy
GenSpec == dummy = 0 /\ [][FALSE]_dummy
=============================================================================
