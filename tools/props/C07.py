"""C07 Range answers are exact slices or explicit refusals (spec/RangeSpec.tla)."""
import time
import vlib, inputfam
from props.inputcommon import finish


def run(tier, seed):
    t0 = time.time()
    r = inputfam.range_run(4 if tier == "quick" else 5)
    parts = [dict(name="range_function_level", evaluations=r["evaluations"], distinct=r["cases"], bad=r["bad"],
                  detail=r["detail"], sample=r["sample"])]
    try:
        import rangee2e
        parts += rangee2e.run(tier, seed)
    except ImportError:
        pass
    return finish("C07", tier, t0, parts,
                  "TLC enumerates every token sequence up to length 4 (quick) / 5 (thorough) over {0,1,5,9,-,',',SP,x,2^63-1,2^64} "
                  "behind 'bytes=' plus short tails behind six other unit prefixes, and evaluates the reference Allowed(prefix, tail, size) "
                  "for sizes {0,1,2,10,1000}; the Go driver runs the real header parsing and slicing on every (value, size) under recover(); "
                  "TLC judges each recorded outcome (206 a-b | 416 | 200 | panic) for membership in Allowed. End to end: the same values (length <=3/4) "
                  "are sent on a raw socket through the real proxy for stored bodies of 1, 2, 10 and 1000 bytes (origin ignores Range); status, "
                  "Content-Range, Content-Length and the body bytes are condensed into the same outcome form (a 206 whose Content-Range or bytes "
                  "do not match the stored body, a 416 without 'bytes */size', a short 200 are outcomes of their own, never allowed) and judged "
                  "by the same operator. distinct_nontrivial = distinct header values.",
                  ["function level: ParseHeaderDirective(...).Range + SliceSize; end to end: plain HTTP and CONNECT tunnel, retry_on_invalid_range off and on, memory backend (quick) / both backends (thorough)",
                   "lenient white space inside numbers and the 'Bytes' unit may be served or refused"])


def replay(path):
    print(open(path).read()[:2000])
    return run("quick", vlib.seed())
