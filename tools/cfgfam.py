"""ConfigCells (C18, C17, C19 components): TLC check, schedule generation, replay on the real config package."""
import json, os, shutil, time
import vlib

PROPS = {"A", "B", "C", "D", "E", "F"}
LIVE = {"A", "B", "C", "E"}
# replays also carry G: the dashboard / API switches as one restart-required setting whose "inv" value is the combination
# under which the process cannot start (the exhaustive TLC run keeps six settings: a seventh adds nothing to the protocol)
GENPROPS = PROPS | {"G"}
INV = ["ComponentsFollow", "FileIsBase", "OnlyWorkable"]


def mc(maxsteps=4, timeout=300, coverage=False):
    cfg = vlib.cfg_text(dict(Props=PROPS, Live=LIVE, MaxSteps=maxsteps), spec="Spec", invariants=INV)
    r = vlib.tlc_check("ConfigCells", cfg, timeout=timeout, coverage=coverage)
    r["name"] = "configcells_%dsteps" % maxsteps
    r["constants"] = dict(Props=sorted(PROPS), Live=sorted(LIVE), MaxSteps=maxsteps)
    return r


def run(num, depth, seed):
    cfg = vlib.cfg_text(dict(Props=GENPROPS, Live=LIVE, MaxSteps=depth, Depth=depth + 1), spec="GenSpec", invariants=["PrintHist"])
    hists = vlib.tlc_simulate("ConfigCellsGen", cfg, num + 2, depth + 1, seed)[:num]
    return replay(hists)


def replay(hists):
    binp = vlib.go_build("cfgdrv")
    d = vlib.scratch("cfg-")
    try:
        json.dump({"props": sorted(GENPROPS), "behaviours": hists}, open(os.path.join(d, "in.json"), "w"))
        rc, out, err, _ = vlib.run_driver(binp, ["-in", "in.json", "-out", "trace.ndjson"], cwd=d, timeout=600)
        lines = [json.loads(x) for x in open(os.path.join(d, "trace.ndjson"))] if os.path.exists(os.path.join(d, "trace.ndjson")) else []
        problems = []
        if rc != 0:
            # the process under test died: that itself contradicts C18 ("and the process alive")
            last = lines[-1] if lines else {}
            bi = last.get("b", 1)
            nxt = None
            if bi - 1 < len(hists):
                done = len([x for x in lines if x.get("b") == bi]) - 1
                nxt = hists[bi - 1][done] if done < len(hists[bi - 1]) else None
            problems.append({"cats": ["C18"], "line": len(lines) + 1, "event": {"died_during": nxt, "stderr": err[-1500:]},
                             "context": [x for x in lines if x.get("b") == bi][-6:],
                             "replay_input": {"behaviours": [hists[bi - 1]] if bi - 1 < len(hists) else []}})
        tr = vlib.cfg_text(dict(Props=GENPROPS, Live=LIVE, MaxSteps=9999, TraceFile="trace.ndjson"), spec="TraceSpec", postcondition="Report")
        consumed = 0
        if lines:
            r = vlib.tlc_validate("ConfigCellsTrace", tr, os.path.join(d, "trace.ndjson"))
            consumed = r["consumed"]
            for b in r["allbad"]:
                ln = lines[b["line"] - 1]
                bi = ln.get("b")
                problems.append({"cats": b["cats"], "line": b["line"], "event": ln, "context": [x for x in lines[:b["line"]] if x.get("b") == bi][-6:],
                                 "replay_input": {"behaviours": [hists[bi - 1]]}})
            if r["consumed"] < r["total"]:
                ln = lines[r["consumed"]]
                problems.append({"cats": ["C18"], "line": r["consumed"] + 1, "event": ln, "context": [], "kind": "struct",
                                 "replay_input": {"behaviours": [hists[ln.get("b", 1) - 1]]}})
        kinds = {}
        for ln in lines:
            k = "%s:%s" % (ln.get("a"), ln.get("res", ""))
            kinds[k] = kinds.get(k, 0) + 1
        return {"behaviours": len(hists), "lines": len(lines), "consumed": consumed, "problems": problems, "kinds": kinds,
                "sample": [x for x in lines if x.get("b") == 1][:12]}
    finally:
        shutil.rmtree(d, ignore_errors=True)


def c17_parts(tier, seed):
    """Config half of C17: overrides win (also after API updates) and are never written to the file; the file reads back."""
    r = run(40 if tier == "quick" else 400, 6, seed + 7)
    bad = [p for p in r["problems"] if "C17" in p["cats"]]
    detail = json.dumps([{"cats": p["cats"], "event": p["event"]} for p in bad[:2]])[:1500]
    return [dict(name="config_override_and_file_roundtrip", evaluations=r["lines"], distinct=len(r["kinds"]) + r["behaviours"], bad=len(bad),
                 detail=detail, sample=r["sample"][:6])]
