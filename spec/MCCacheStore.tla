---------------------------- MODULE MCCacheStore ----------------------------
(* Model-checking wrapper: constant values that a .cfg file cannot express. *)
EXTENDS CacheStore

Shard1    == <<1>>
Shard11   == <<1, 1>>
Shard12   == <<1, 2>>
Shard111  == <<1, 1, 1>>
Shard112  == <<1, 1, 2>>
Shard123  == <<1, 2, 3>>
Shard1123 == <<1, 1, 2, 3>>
Shard1234 == <<1, 2, 3, 4>>

NF_all   == {<<n, f>> : n \in 0..MaxChunks, f \in -1..(MaxChunks-1)}
NF_read  == {<<2, -1>>, <<1, -1>>, <<2, 1>>}
NF_count == {<<0, -1>>, <<1, -1>>, <<2, -1>>, <<2, 0>>, <<2, 1>>}
NF_evict == {<<1, -1>>, <<2, -1>>, <<3, -1>>}
NF_evict2 == {<<1, -1>>, <<2, -1>>}
NF_one   == {<<1, -1>>}

\* state constraint shared by the bounded configurations
ClockBound == clock <= 8
ClockBound6 == clock <= 6

\* VIEW: ghost variables do not distinguish behaviours
View == <<entries, path, objs, bytes, count, lock, pc, op, pend, handles, clock, nextVer, jan, limit>>
=============================================================================
