--------------------------- MODULE ConfigCellsGen ---------------------------
EXTENDS ConfigCells, Json
CONSTANT Depth
VARIABLE hist
Log(r) == hist' = Append(hist, r)
GenInit == Init /\ hist = <<>>
DocRec(d) == [p \in DOMAIN d |-> d[p]]
GenNext ==
    \/ \E p \in Props, v \in Good : Override(p, v) /\ Log([a |-> "override", p |-> p, v |-> v, ok |-> TRUE, doc |-> <<>>])
    \* (bias: at most one thing wrong per update)
    \/ \E d \in SmallDocs, ok \in BOOLEAN :
          /\ Cardinality({p \in DOMAIN d : d[p] \notin Good}) + (IF ok THEN 0 ELSE 1) <= 1
          /\ Update(d, ok) /\ Log([a |-> "update", p |-> "", v |-> "", ok |-> ok,
                                doc |-> d])
GenSpec == GenInit /\ [][GenNext]_<<vars, hist>>
PrintHist == (TLCGet("level") # Depth) \/ PrintT(<<"HIST", ToJson(hist)>>)
=============================================================================
