#!/bin/sh
# seedverify.sh <name> <patch.diff> <demo_test.go> <pkgdir> <go test -run regex>
# Confirms in a scratch worktree of /repo HEAD: suite passes with the patch; demo passes without, fails with it.
name=$1; patch=$2; demo=$3; pkg=$4; run=$5
wt=/tmp/sv/$name
rm -rf $wt; mkdir -p /tmp/sv
git -C /repo worktree add --detach $wt HEAD >/dev/null 2>&1 || exit 3
cd $wt
cp $demo $pkg/zz_demo_test.go
echo "== demo on unpatched tree"; go test -mod=mod -vet=off -count=1 -run "$run" ./$pkg/ 2>&1 | tail -3
git apply $patch || { echo "PATCH DOES NOT APPLY"; git -C /repo worktree remove --force $wt; exit 4; }
echo "== demo on patched tree"; go test -mod=mod -vet=off -count=1 -run "$run" ./$pkg/ 2>&1 | grep -E "^(--- FAIL|FAIL|ok|panic)" | head -5
rm $pkg/zz_demo_test.go
echo "== suite on patched tree"; go test -mod=mod -vet=off -count=1 ./... 2>&1 | grep -v "no test files" | tail -8
cd /; git -C /repo worktree remove --force $wt
