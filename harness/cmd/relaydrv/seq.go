package main

import (
	"bufio"
	"bytes"
	"encoding/json"
	"fmt"
	"net"
	"os"
	"strings"
	"time"
)

// tunnel sequences (spec/Tunnel.tla): every sequence is run four ways on the same proxy, each way with its own
// copy of the resources: all exchanges over one shared tunnel, one tunnel per exchange, plain HTTP, and pipelined over one tunnel.

type kdef struct {
	Res    string   `json:"res"`
	Method string   `json:"method"`
	Range  string   `json:"range"`
	Rbody  string   `json:"rbody"`
	Expect bool     `json:"expect"`
	Status int      `json:"status"`
	Hdrs   []string `json:"hdrs"`
	Body   string   `json:"body"`
}

type seqIn struct {
	S       int      `json:"s"`
	Kinds   []string `json:"kinds"`
	Tracked []string `json:"tracked"`
	Defs    []kdef   `json:"defs"`
}

func hdrValues(name, res string) []string {
	switch name {
	case "content-type":
		return []string{"application/x-verif-" + strings.ToLower(res)}
	case "cache-control":
		if res == "F" {
			return []string{"no-store"}
		}
		return []string{"max-age=60"}
	case "set-cookie":
		return []string{"one=1; Path=/", "two=2"}
	case "location":
		return []string{"/created/" + strings.ToLower(res)}
	}
	return []string{"v-" + name + "-" + res}
}

func canon(name string) string {
	parts := strings.Split(name, "-")
	for i, p := range parts {
		if p != "" {
			parts[i] = strings.ToUpper(p[:1]) + p[1:]
		}
	}
	return strings.Join(parts, "-")
}

func (d *driver) observe(a answer, kd kdef, full []byte, tracked []string) map[string]any {
	o := map[string]any{"err": a.Err, "status": a.Status, "names": []string{}, "vals": map[string][]string{}, "body": "", "sized": false}
	if a.Err != "" {
		return o
	}
	names := []string{}
	vals := map[string][]string{}
	for _, n := range tracked {
		if v, ok := a.Hdr[n]; ok {
			names = append(names, n)
			vals[n] = v
		}
	}
	o["names"], o["vals"] = names, vals
	_, o["sized"] = a.Hdr["content-length"]
	switch {
	case len(a.Body) == 0:
		o["body"] = "empty"
	case bytes.Equal(a.Body, full):
		o["body"] = kd.Body
	case len(full) >= 48 && bytes.Equal(a.Body, full[16:48]):
		o["body"] = "slice"
	case strings.HasPrefix(string(a.Body), "invalid Range header"):
		o["body"] = "refusal"
	default:
		o["body"] = fmt.Sprintf("other:%d", len(a.Body))
	}
	return o
}

func runSequences(dir, backend, in, out string) error {
	fh, err := os.Open(in)
	if err != nil {
		return err
	}
	defer fh.Close()
	of, err := os.Create(out)
	if err != nil {
		return err
	}
	defer of.Close()
	w := bufio.NewWriter(of)
	defer w.Flush()
	enc := json.NewEncoder(w)
	d := &driver{}
	d.open(dir, backend)
	defer d.close()
	sc := bufio.NewScanner(fh)
	sc.Buffer(make([]byte, 1<<20), 1<<24)
	resIdx := map[string]int{"A": 1, "B": 2, "C": 3, "D": 4, "E": 5, "F": 6, "G": 7}
	for sc.Scan() {
		var s seqIn
		if err := json.Unmarshal(sc.Bytes(), &s); err != nil {
			return err
		}
		enc.Encode(map[string]any{"a": "reset", "s": s.S})
		// client-side requests per way
		mk := func(way int, kd kdef) (*Case, []byte) {
			id := (s.S*4+way)*10 + resIdx[kd.Res]
			oc := &Case{ID: id, Slice: "S", Method: kd.Method, Path: "/res", Query: "NONE", Rbody: "none", Status: kd.Status, Sbody: kd.Body}
			for _, n := range kd.Hdrs {
				for _, v := range hdrValues(n, kd.Res) {
					oc.RespItems = append(oc.RespItems, Item{W: canon(n), V: v})
				}
			}
			d.mu.Lock()
			if d.cases[id] == nil {
				d.cases[id] = oc
			}
			d.mu.Unlock()
			cc := *oc
			if kd.Rbody != "" && kd.Rbody != "none" {
				cc.Rbody = kd.Rbody
			}
			if kd.Expect {
				cc.ReqItems = append(cc.ReqItems, Item{W: "Expect", V: "100-continue"})
			}
			switch kd.Range {
			case "ok":
				cc.Range = "bytes=16-47"
			case "bad":
				cc.Range = "bytes=9999-99999"
			}
			return &cc, respBody(oc)
		}
		n := len(s.Defs)
		obs := make([][3]map[string]any, n)
		// way 0: one shared tunnel
		conn, br, terr := d.openTunnel()
		for i, kd := range s.Defs {
			cc, full := mk(0, kd)
			var a answer
			if terr != nil {
				a = answer{Err: "tunnel: " + terr.Error()}
			} else {
				conn.SetDeadline(time.Now().Add(8 * time.Second))
				if _, err := conn.Write(d.wire(cc, false)); err != nil {
					a = answer{Err: "write: " + err.Error()}
				} else {
					a = readAnswer(br, cc.Method, conn)
				}
				if a.Err != "" {
					terr = fmt.Errorf("earlier exchange failed: %s", a.Err)
				}
			}
			obs[i][0] = d.observe(a, kd, full, s.Tracked)
		}
		if conn != nil && terr == nil && n > 0 {
			// one more, unjudged exchange: if the proxy left part of the last request unread (a body it had no use
			// for), that rest is taken for the next request line and this probe fails
			probe := &Case{ID: (s.S*4)*10 + 9, Slice: "S", Method: "GET", Path: "/probe", Query: "NONE", Rbody: "none", Status: 404, Sbody: "sized"}
			d.mu.Lock()
			d.cases[probe.ID] = probe
			d.mu.Unlock()
			conn.SetDeadline(time.Now().Add(3 * time.Second))
			if _, err := conn.Write(d.wire(probe, false)); err == nil {
				a := readAnswer(br, "GET", conn)
				d.mu.Lock()
				sawMethod := ""
				if ss := d.seen[probe.ID]; len(ss) > 0 {
					sawMethod = ss[0].Method
				}
				d.mu.Unlock()
				if (a.Err != "" || a.Status != 404 || sawMethod != "GET") && obs[n-1][0]["err"] == "" {
					if len(sawMethod) > 40 {
						sawMethod = sawMethod[:20] + "..." + sawMethod[len(sawMethod)-12:]
					}
					obs[n-1][0]["err"] = fmt.Sprintf("the tunnel was unusable after this exchange (probe: status %d, origin saw method %q, %s)", a.Status, sawMethod, a.Err)
				}
			}
		}
		if conn != nil {
			// anything left unread on the tunnel is a framing error of the last exchange
			conn.SetDeadline(time.Now().Add(30 * time.Millisecond))
			if extra, _ := br.Peek(1); len(extra) > 0 && n > 0 && obs[n-1][0]["err"] == "" {
				obs[n-1][0]["err"] = "bytes left on the tunnel after the last response"
			}
			conn.(net.Conn).Close()
		}
		// way 3: the same exchanges pipelined over one tunnel: every request is on the wire before the first answer is read
		// (not with Expect: 100-continue, where the client waits for the interim response by definition)
		piped := make([]map[string]any, n)
		pipeOK := n > 0
		for _, kd := range s.Defs {
			if kd.Expect {
				pipeOK = false
			}
		}
		if !pipeOK {
			for i := range piped {
				piped[i] = map[string]any{"err": "skipped", "status": 0, "names": []string{}, "vals": map[string][]string{}, "body": "", "sized": false}
			}
		} else {
			pc, pbr, perr := d.openTunnel()
			var all bytes.Buffer
			ccs, fulls := make([]*Case, n), make([][]byte, n)
			for i, kd := range s.Defs {
				ccs[i], fulls[i] = mk(3, kd)
				all.Write(d.wire(ccs[i], false))
			}
			if perr == nil {
				go pc.Write(all.Bytes())
			}
			for i, kd := range s.Defs {
				var a answer
				if perr != nil {
					a = answer{Err: "tunnel: " + perr.Error()}
				} else {
					a = readAnswer(pbr, ccs[i].Method, pc)
					if a.Err != "" {
						perr = fmt.Errorf("earlier exchange failed: %s", a.Err)
					}
				}
				piped[i] = d.observe(a, kd, fulls[i], s.Tracked)
			}
			if pc != nil {
				pc.SetDeadline(time.Now().Add(30 * time.Millisecond))
				if extra, _ := pbr.Peek(1); len(extra) > 0 && perr == nil && piped[n-1]["err"] == "" {
					piped[n-1]["err"] = "bytes left on the tunnel after the last response"
				}
				pc.Close()
			}
		}
		for way, tr := range map[int]string{1: "tunnel", 2: "plain"} {
			for i, kd := range s.Defs {
				cc, full := mk(way, kd)
				cc.Tr = tr
				obs[i][way] = d.observe(d.exchange(cc), kd, full, s.Tracked)
			}
		}
		for i := range s.Defs {
			enc.Encode(map[string]any{"a": "x", "s": s.S, "i": i + 1, "k": s.Kinds[i], "shared": obs[i][0], "own": obs[i][1], "plain": obs[i][2], "piped": piped[i]})
		}
	}
	return sc.Err()
}
