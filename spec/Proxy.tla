------------------------------- MODULE Proxy -------------------------------
(***************************************************************************)
(* Specification of reservoir's request pipeline (proxy/proxy.go,          *)
(* proxy/fetcher.go, proxy/headers): freshness, storability, coalescing    *)
(* (singleflight), revalidation with stored validators, range bypass.      *)
(*                                                                         *)
(* Granularity: the steps between two externally controllable points.      *)
(*   Send(c, r, kind, cond)   a client puts a request on the wire; the     *)
(*                            proxy answers it from its store, or contacts *)
(*                            the origin (the contact is then "open"), or  *)
(*                            queues the client behind the flight in       *)
(*                            progress for that key                        *)
(*   Reply(x, status, ...)    the origin answers open contact x; the proxy *)
(*                            stores / renews / relays, answers the        *)
(*                            flight's leader and every follower (each     *)
(*                            follower re-reads the store or, if the       *)
(*                            answer was not storable, opens its own       *)
(*                            contact)                                     *)
(*   Shift(d)                 time passes                                  *)
(*   Evict(r)                 the entry disappears (eviction / deletion)   *)
(*   Disconnect(c)            a client goes away                           *)
(*   OriginChange(r, ...)     the origin publishes a new version / policy  *)
(* Time is in ticks; lifetimes of the header forms are given in ticks.     *)
(***************************************************************************)
EXTENDS Integers, Sequences, FiniteSets, TLC

CONSTANTS
    NRes, NClients,
    Forms,        \* header forms the origin may attach to a 200 (ids, see FormStorable/FormLife)
    FormStorable, \* [Forms -> "yes" | "no" | "either"]  origin's marking under honoured directives
    FormLife,     \* [Forms -> 0 (none given: configured default) | -1 (already expired) | lifetime in ticks]
    ValKinds,     \* validator kinds the origin may use: "etag","lm","both","none","weak"
    DefaultAge,   \* configured default_max_age in ticks
    IgnoreCC,     \* ignore_cache_control
    ForceDefault, \* force_default_max_age
    MaxVer, MaxNow, MaxX,
    Unlinks,        \* the environment may remove an entry's data file (file backend)
    StoreMayRefuse, \* the cache may refuse to keep a storable answer (empty body on the file backend, no room):
                  \* the answer is then handled like one that is not storable (every waiter fetches its own)
    PolicyFlips,  \* the operator may change ignore_cache_control / force_default_max_age in the middle of a history
                  \* (config cells are read at the moment of each decision: fetcher.go shouldCache / lifetime)
    Retry416,     \* retry_on_range_416: a 416 from the origin is retried once without the Range header
    Kinds,        \* request kinds exercised: subset of {"get","range","head","post"}
    Conds         \* client conditional headers exercised: subset of {"none","inm","ims","bad"}

Res     == 1..NRes
Clients == 1..NClients

VARIABLES
    now,
    origin,    \* [Res -> [ver, form, val]]   what the origin currently publishes
    store,     \* [Res -> entry]
    flight,    \* [Res -> [active, leader, followers, x]]
    creq,      \* [Clients -> request record]
    contacts,  \* [1..MaxX -> contact record]
    nextX,
    pol,       \* [icc, fd, age]: the policy settings in force now (IgnoreCC / ForceDefault / DefaultAge are their initial values)
    served,    \* ghost: [Res -> set of versions replaced by a 200 (must never be served again)]
    last       \* ghost: the deliveries made by the last step: set of response records

vars == <<now, origin, store, flight, creq, contacts, nextX, served, last, pol>>

NoEntry   == [present |-> FALSE, ver |-> 0, form |-> "none", val |-> "none", storedAt |-> 0, expires |-> 0, lost |-> FALSE, sy |-> "no"]
\* sy: ghost, how the policy in force at the moment of storing marked the answer ("yes" / "either")
\* lost: the entry is known but its data can no longer be opened (file backend: the file vanished behind the cache's back)
NoFlight  == [active |-> FALSE, leader |-> 0, followers |-> {}, x |-> 0]
Idle      == [st |-> "idle", r |-> 0, kind |-> "get", cond |-> "none", x |-> 0]
NoContact == [open |-> FALSE, c |-> 0, oc |-> 0, r |-> 0, kind |-> "get", leader |-> FALSE, reval |-> FALSE,
              inm |-> "none", ims |-> "none", ver |-> 0]

Init ==
    /\ now = 0
    /\ origin \in [Res -> [ver : {1}, form : Forms, val : ValKinds]]
    /\ store = [r \in Res |-> NoEntry]
    /\ flight = [r \in Res |-> NoFlight]
    /\ creq = [c \in Clients |-> Idle]
    /\ contacts = [x \in 1..MaxX |-> NoContact]
    /\ nextX = 1
    /\ served = [r \in Res |-> {}]
    /\ last = {}
    /\ pol = [icc |-> IgnoreCC, fd |-> ForceDefault, age |-> DefaultAge]

-----------------------------------------------------------------------------
(* Reference semantics of the cache policy (C03, C04)                        *)

Storable(f) == IF pol.icc THEN "yes" ELSE FormStorable[f]
Life(f)     == IF pol.fd \/ FormLife[f] = 0 THEN pol.age
               ELSE IF FormLife[f] < 0 THEN 0 ELSE FormLife[f]
Fresh(e)    == e.present /\ now < e.expires

\* validators the proxy must present when revalidating entry e
HasEtag(v) == v \in {"etag", "both", "weak"}
HasLM(v)   == v \in {"lm", "both"}
RevalINM(e) == IF HasEtag(e.val) THEN "stored" ELSE "absent"
RevalIMS(e) == IF HasLM(e.val) THEN "stored" ELSE "synth"     \* no Last-Modified from the origin: store time

Resp(c, status, ver, label, age, ttl, src) ==
    [c |-> c, status |-> status, ver |-> ver, label |-> label, age |-> age, ttl |-> ttl, src |-> src]
\* src: "store" (built from the store), "relay" (origin's own response passed through), "err"

-----------------------------------------------------------------------------
OpenX(c, r, kind, leader, reval, e) ==
    [open |-> TRUE, c |-> c, oc |-> c, r |-> r, kind |-> kind, leader |-> leader, reval |-> reval,
     inm |-> IF reval THEN RevalINM(e) ELSE "absent", ims |-> IF reval THEN RevalIMS(e) ELSE "absent",
     ver |-> IF reval THEN e.ver ELSE 0]

Send(c, r, kind, cond) ==
    /\ creq[c].st = "idle"
    /\ kind \in Kinds /\ cond \in Conds
    /\ IF kind = "get"
       THEN IF flight[r].active
            THEN \* joins the flight in progress
                 /\ flight' = [flight EXCEPT ![r].followers = @ \cup {c}]
                 /\ creq' = [creq EXCEPT ![c] = [st |-> "wait", r |-> r, kind |-> kind, cond |-> cond, x |-> 0]]
                 /\ last' = {}
                 /\ UNCHANGED <<store, contacts, nextX>>
            ELSE IF store[r].present /\ store[r].lost
            THEN \* the lookup fails (the data cannot be opened): this client fetches for itself, nothing is stored
                 /\ nextX <= MaxX
                 /\ contacts' = [contacts EXCEPT ![nextX] = OpenX(c, r, "get", FALSE, FALSE, NoEntry)]
                 /\ creq' = [creq EXCEPT ![c] = [st |-> "origin", r |-> r, kind |-> kind, cond |-> cond, x |-> nextX]]
                 /\ nextX' = nextX + 1
                 /\ last' = {}
                 /\ UNCHANGED <<store, flight>>
            ELSE IF Fresh(store[r])
            THEN \* answered from the store without contacting the origin
                 /\ last' = {Resp(c, 200, store[r].ver, "HIT", now - store[r].storedAt, store[r].expires - now, "store")}
                 /\ UNCHANGED <<store, flight, creq, contacts, nextX>>
            ELSE \* miss or stale: this client leads a flight
                 /\ nextX <= MaxX
                 /\ contacts' = [contacts EXCEPT ![nextX] = OpenX(c, r, kind, TRUE, store[r].present, store[r])]
                 /\ flight' = [flight EXCEPT ![r] = [active |-> TRUE, leader |-> c, followers |-> {}, x |-> nextX]]
                 /\ creq' = [creq EXCEPT ![c] = [st |-> "origin", r |-> r, kind |-> kind, cond |-> cond, x |-> nextX]]
                 /\ nextX' = nextX + 1
                 /\ last' = {}
                 /\ UNCHANGED store
       ELSE \* Range / non-GET requests are not coalesced and always go to the origin
            /\ nextX <= MaxX
            /\ contacts' = [contacts EXCEPT ![nextX] = OpenX(c, r, kind, FALSE, FALSE, NoEntry)]
            /\ creq' = [creq EXCEPT ![c] = [st |-> "origin", r |-> r, kind |-> kind, cond |-> cond, x |-> nextX]]
            /\ nextX' = nextX + 1
            /\ last' = {}
            /\ UNCHANGED <<store, flight>>
    /\ UNCHANGED <<now, origin, served>>

\* the statuses the origin may answer contact x with
ReplyStatuses(x) ==
    LET ct == contacts[x] IN
    {200, 404, 500}
    \cup (IF ct.reval /\ ct.ver = origin[ct.r].ver THEN {304} ELSE {})
    \cup (IF ct.kind = "range" THEN {206, 416} ELSE {})
    \* (kind "retry": the second request of a range request whose first answer was 416; it has no Range header)

NewEntry(r) ==
    [present |-> TRUE, ver |-> origin[r].ver, form |-> origin[r].form, val |-> origin[r].val,
     storedAt |-> now, expires |-> now + Life(origin[r].form), lost |-> FALSE, sy |-> Storable(origin[r].form)]

\* Reply(x, status, st, lr): the origin answers; st resolves "either" forms: was the 200 stored?
\* lr: when the answer to a flight's fetch cannot be served from the store, does the leader, like its
\* followers, fetch a response of its own (TRUE, what fetcher.go does) or relay this one (FALSE)?
Rank(S, d) == Cardinality({g \in S : g < d})
Reply(x, status, st, lr) ==
    /\ contacts[x].open
    /\ status \in ReplyStatuses(x)
    /\ LET ct == contacts[x]
           r  == ct.r
           c  == ct.c
           fl == flight[r]
           isLeader == ct.leader /\ fl.active /\ fl.x = x
           fol == IF isLeader THEN fl.followers ELSE {}
           is200 == status = 200 /\ ct.kind \in {"get", "range", "retry"}
           \* retry_on_range_416: the same client's request goes out again, without Range, and whatever
           \* comes back is handled as the answer to a plain GET (stored if storable, relayed otherwise)
           retry416 == Retry416 /\ status = 416 /\ ct.kind = "range"
           stored == is200 /\ st
           renewed == status = 304 /\ store[r].present
           vanished == status = 304 /\ ~store[r].present   \* entry gone since the lookup: fetch again, unconditionally
           fromStore == stored \/ renewed
           refetch == lr /\ ct.leader /\ ct.kind = "get" /\ ~fromStore /\ ~vanished
           lbl == IF ct.reval THEN "REVALIDATED" ELSE "MISS"
           nfol == Cardinality(fol)
       IN \* a follower's own fetch (fetchDirectlyFromUpstream) may or may not store a storable answer
          /\ is200 => \/ st = (Storable(origin[r].form) = "yes")
                       \/ Storable(origin[r].form) = "either"
                       \/ (~ct.leader /\ ct.kind = "get" /\ ~st)
                       \/ (StoreMayRefuse /\ ~st)
          /\ ~is200 => st = FALSE
          /\ lr => (ct.leader /\ ct.kind = "get")
          /\ (~fromStore /\ ~vanished) => nextX + nfol <= MaxX + 1
          /\ contacts' = [y \in 1..MaxX |->
                 IF y = x THEN (IF vanished THEN [OpenX(c, r, ct.kind, ct.leader, FALSE, NoEntry) EXCEPT !.oc = ct.oc]
                                ELSE IF retry416 THEN [ct EXCEPT !.kind = "retry"]
                                ELSE IF refetch /\ c # 0 THEN OpenX(c, r, "get", FALSE, FALSE, NoEntry)
                                ELSE NoContact)
                 ELSE IF ~fromStore /\ ~vanished /\ (\E d \in fol : y = nextX + Rank(fol, d))
                 THEN OpenX(CHOOSE d \in fol : y = nextX + Rank(fol, d), r, "get", FALSE, FALSE, NoEntry)
                 ELSE contacts[y]]
          /\ nextX' = IF ~fromStore /\ ~vanished THEN nextX + nfol ELSE nextX
          /\ flight' = IF isLeader /\ ~vanished THEN [flight EXCEPT ![r] = NoFlight] ELSE flight
          /\ IF stored
             THEN /\ store' = [store EXCEPT ![r] = NewEntry(r)]
                  /\ served' = IF store[r].present /\ store[r].ver # origin[r].ver
                               THEN [served EXCEPT ![r] = @ \cup {store[r].ver}] ELSE served
             ELSE IF renewed
             THEN /\ store' = [store EXCEPT ![r].expires = now + pol.age]
                  /\ served' = served
             ELSE /\ store' = store /\ served' = served
          /\ creq' = [d \in Clients |->
                 IF vanished THEN creq[d]
                 ELSE IF d = c THEN (IF refetch \/ retry416 THEN creq[d] ELSE Idle)
                 ELSE IF d \in fol
                 THEN IF fromStore THEN Idle
                      ELSE [creq[d] EXCEPT !.st = "origin", !.x = nextX + Rank(fol, d)]
                 ELSE creq[d]]
          /\ last' =
                 IF stored
                 THEN {Resp(d, IF d = c /\ ct.kind = "range" THEN 206 ELSE 200, origin[r].ver,
                            IF d = c THEN lbl ELSE "ANY", 0, Life(origin[r].form), "store") : d \in ({c} \cup fol) \ {0}}
                 ELSE IF renewed
                 THEN {Resp(d, 200, store[r].ver, IF d = c THEN "REVALIDATED" ELSE "ANY",
                            now - store[r].storedAt, pol.age, "store") : d \in ({c} \cup fol) \ {0}}
                 ELSE IF vanished \/ retry416 THEN {}
                 ELSE IF c = 0 \/ refetch THEN {}
                 ELSE {Resp(c, status, IF status \in {200, 206} THEN origin[r].ver ELSE 0, lbl, 0, 0, "relay")}
    /\ UNCHANGED <<now, origin>>

Shift(d) ==
    /\ d > 0 /\ now + d <= MaxNow
    /\ now' = now + d
    /\ last' = {}
    /\ UNCHANGED <<origin, store, flight, creq, contacts, nextX, served>>

Evict(r) ==
    /\ store[r].present
    /\ store' = [store EXCEPT ![r] = NoEntry]
    /\ last' = {}
    /\ UNCHANGED <<now, origin, flight, creq, contacts, nextX, served>>

\* the data file of an entry disappears behind the cache's back (not while a flight for it is in progress)
Unlink(r) ==
    /\ Unlinks /\ store[r].present /\ ~store[r].lost /\ ~flight[r].active
    /\ \A x \in 1..MaxX : contacts[x].open => contacts[x].r # r
    /\ store' = [store EXCEPT ![r].lost = TRUE]
    /\ last' = {}
    /\ UNCHANGED <<now, origin, flight, creq, contacts, nextX, served>>

OriginChange(r, f, v) ==
    /\ origin[r].ver < MaxVer
    /\ origin' = [origin EXCEPT ![r] = [ver |-> @.ver + 1, form |-> f, val |-> v]]
    /\ last' = {}
    /\ UNCHANGED <<now, store, flight, creq, contacts, nextX, served>>

\* a client goes away.  A follower just leaves its flight.  The fetch of a flight goes on without
\* its leader (the contact becomes ownerless; its answer is still stored for those who wait or come
\* later).  A fetch that serves only the departing client (range / non-GET / a follower's own
\* fetch) is abandoned.  Nobody else's answer changes.
Disconnect(c) ==
    /\ creq[c].st \in {"wait", "origin"}
    /\ last' = {}
    /\ creq' = [creq EXCEPT ![c] = Idle]
    /\ IF creq[c].st = "wait"
       THEN /\ flight' = [flight EXCEPT ![creq[c].r].followers = @ \ {c}]
            /\ UNCHANGED contacts
       ELSE LET x == creq[c].x
                r == contacts[x].r
                lead == contacts[x].leader /\ flight[r].active /\ flight[r].x = x
            IN IF lead
               THEN /\ contacts' = [contacts EXCEPT ![x].c = 0]
                    /\ flight' = [flight EXCEPT ![r].leader = 0]
               ELSE /\ contacts' = [contacts EXCEPT ![x] = NoContact]
                    /\ flight' = flight
    /\ UNCHANGED <<now, origin, store, nextX, served>>

\* the operator changes the policy switches (dashboard PATCH /api/config or a config reload): nothing else moves; answers
\* judged from now on are judged by the new values, entries already stored keep the lifetime they were given
Ages == {DefaultAge, DefaultAge + 2}      \* values default_max_age is switched between
SetPolicy(i, f, a) ==
    /\ PolicyFlips
    /\ <<i, f, a>> # <<pol.icc, pol.fd, pol.age>>
    /\ pol' = [icc |-> i, fd |-> f, age |-> a]
    /\ last' = {}
    /\ UNCHANGED <<now, origin, store, flight, creq, contacts, nextX, served>>

NextFixedPolicy ==
    \/ \E c \in Clients, r \in Res, k \in Kinds, cd \in Conds : Send(c, r, k, cd)
    \/ \E x \in 1..MaxX, s \in {200, 206, 304, 404, 416, 500}, st \in BOOLEAN :
          Reply(x, s, st, contacts[x].leader /\ contacts[x].kind = "get")
    \/ \E d \in 1..3 : Shift(d)
    \/ \E r \in Res : Evict(r)
    \/ \E r \in Res : Unlink(r)
    \/ \E r \in Res, f \in Forms, v \in ValKinds : OriginChange(r, f, v)
    \/ \E c \in Clients : Disconnect(c)

Next == (NextFixedPolicy /\ UNCHANGED pol) \/ \E i, f \in BOOLEAN, a \in Ages : SetPolicy(i, f, a)

Spec == Init /\ [][Next]_vars

-----------------------------------------------------------------------------
(* Design-level properties                                                   *)

\* C03: a response labelled HIT was served from a fresh entry without origin contact
HitOnlyWhileFresh == \A rsp \in last : rsp.label = "HIT" => rsp.src = "store" /\ rsp.ttl > 0
\* C04: only storable 200 GET responses are in the store
\* (judged by the policy in force when the answer was stored: a later flip does not un-store what was legitimately kept)
StoredIsStorable == \A r \in Res : store[r].present => store[r].sy \in {"yes", "either"}
\* C05: at most one open leader contact per key; every waiting client is a follower of an active flight
OneFetchPerFlight ==
    \A r \in Res : Cardinality({x \in 1..MaxX : contacts[x].open /\ contacts[x].leader /\ contacts[x].r = r}) <= 1
FollowersAccounted ==
    \A c \in Clients : creq[c].st = "wait" => flight[creq[c].r].active /\ c \in flight[creq[c].r].followers
OriginClientsHaveContact ==
    \A c \in Clients : creq[c].st = "origin" => contacts[creq[c].x].open /\ contacts[creq[c].x].c = c
\* C05: nobody is left waiting for a fetch that no longer exists
NoOrphanFollowers ==
    \A r \in Res : flight[r].active => contacts[flight[r].x].open /\ contacts[flight[r].x].r = r
\* every delivered store body is the version the store holds (or held at delivery) -- recorded by construction;
\* the real content of this invariant is checked on traces of the implementation
ServedFromStoreIsCurrent ==
    \A rsp \in last : rsp.src = "store" => \E r \in Res : store[r].present /\ store[r].ver = rsp.ver
                                                           /\ rsp.ver \notin served[r]
=============================================================================
