"""C14 No interleaving deadlocks the cache or a request."""
import cachefam
from props.cachecommon import run_cache_property, replay_file

INV = ["CountersNonNegative"]


def mcs(tier):
    out = []
    try:
        import lockfam
        out += lockfam.mcs(tier)
    except ImportError:
        pass
    return out


def fams(tier):
    return cachefam.lock_families("memory") + cachefam.lock_families("file")


def traps(tier):
    return [t for be in ('memory','file') for t in cachefam.trap_families(be)]


def run(tier, seed):
    return run_cache_property(
        "C14", tier, seed, mcs, fams, 60, 600, "model_checking",
        "TLC checks deadlock freedom and termination of the lock-level model (CacheLocks) for shard maps with 1, 2, "
        "3 and distinct shards; behaviours of CacheStore with 3 clients, callers blocked on held shards, "
        "store-triggered eviction over same-shard candidates, janitor cycles gated at every TryLock and run-time "
        "limit changes are replayed on both real backends under a watchdog: a step whose goroutine neither returns, "
        "parks at a harness gate nor is explained by the model's Block action within the watchdog is a hang.",
        ["liveness is decided on the model; on the code it is a watchdog (8 s per step) with goroutine wait-reason "
         "inspection"])


def replay(path):
    return replay_file("C14", path)
