"""C12 Reported cache size and entry count equal what is actually stored."""
import cachefam
from props.cachecommon import run_cache_property, replay_file

INV = ["CountersExact", "CountersNonNegative", "StoredComplete", "NoResurrection"]


def mcs(tier):
    out = []
    for be in ("memory", "file"):
        common = dict(Backend=be, NClients=2, FailStores=True, NKeys=2, ShardOf="<- Shard12", MaxVer=2, MaxHandles=0,
                      MaxObj=4, Janitor=True, Blocking=False)
        if tier == "quick":
            out.append(lambda be=be, c=common: cachefam.mc("c12_%s_2keys_1chunk" % be, INV, timeout=300, MaxChunks=1,
                                                          InitLimit=2, Limits={1, 2}, **c))
        else:
            out.append(lambda be=be, c=common: cachefam.mc("c12_%s_2keys_2chunks" % be, INV, timeout=1200, MaxChunks=2,
                                                          InitLimit=3, Limits={2, 3}, coverage=True, **c))
            out.append(lambda be=be, c=common: cachefam.mc("c12_%s_2keys_sameshard_blocking" % be, INV, timeout=1200,
                                                          MaxChunks=1, InitLimit=2, Limits={1, 2},
                                                          **dict(c, ShardOf="<- Shard11", Blocking=True)))
    return out


def fams(tier):
    return cachefam.counter_families("memory") + cachefam.counter_families("file")


def traps(tier):
    return [t for be in ('memory','file') for t in cachefam.trap_families(be) if 'cleanup' in t['name']]


def run(tier, seed):
    return run_cache_property(
        "C12", tier, seed, mcs, fams, 60, 600, "model_checking",
        "TLC explores every interleaving of the bounded CacheStore configuration(s) and checks CountersExact / "
        "CountersNonNegative in every state; TLC -simulate behaviours of the same spec (stores of 0..2 chunks, "
        "overwrites, deletes, expiry + cleanup cycles, store- and cycle-triggered eviction, failing and empty "
        "sources, blocked callers) are replayed step by step on the real MemoryCache and FileCache; after every "
        "step the real byteSize, entry count, metrics twins, map contents and directory listing are compared "
        "with the specification by TLC (CacheStoreTrace). distinct_nontrivial = number of distinct (step kind, "
        "outcome) pairs observed on the real code; effective_steps = replayed steps that executed an operation.",
        ["restart over a dirty directory is covered only through the constructor wiping the directory at every "
         "behaviour start (reset snapshot must be empty)",
         "bounds: <=3 keys, <=3 clients, bodies <=2 chunks, <=3 versions per key"])


def replay(path):
    return replay_file("C12", path)
