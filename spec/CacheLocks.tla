---------------------------- MODULE CacheLocks ----------------------------
(***************************************************************************)
(* Lock-level specification of the cache (C14): which synchronisation      *)
(* primitives every operation acquires, in which order, blocking or not.   *)
(* Data is abstracted away; what remains is                                *)
(*   - the per-shard RWMutexes (always taken exclusively),                 *)
(*   - the map lock mu (an RWMutex with Go's writer preference: once a     *)
(*     writer waits, new readers queue behind it),                         *)
(*   - the janitor's interval channel (capacity 1) and its stop signal.    *)
(* Every operation is compiled into a straight-line program of lock        *)
(* instructions taken from the Go source:                                  *)
(*   Get / UpdateMetadata / GetMetadata : Lock(s) RLock(mu) RUnlock Unlock *)
(*   Delete                            : Lock(s) Lock(mu) Unlock Unlock(s) *)
(*   memory Cache : Lock(s) [evict] Lock(mu) Unlock(mu) Unlock(s)          *)
(*   file   Cache : [evict] Lock(s) Lock(mu) Unlock(mu) Unlock(s)          *)
(*   evict  : RLock(mu) RUnlock, then per candidate TryLock(c) -> remove   *)
(*            (Lock(mu) Unlock(mu)) Unlock(c), or skip                     *)
(*   cleanup: RLock(mu) RUnlock, then per key TryLock -> RLock(mu) RUnlock *)
(*            (re-check) Lock(mu) Unlock(mu) Unlock, or skip               *)
(*   budget listener (memory): Lock(mu) Unlock(mu)                         *)
(*   interval listener: send on the channel (blocks while it is full)      *)
(*   janitor loop: receive interval | run a cycle | stop                   *)
(* EvictMode = "block" replaces the TryLock of evict/cleanup by Lock: the  *)
(* design the property excludes (TLC then reports the deadlock).           *)
(***************************************************************************)
EXTENDS Integers, Sequences, FiniteSets, TLC

CONSTANTS NKeys, ShardOf, NClients, NOps, Backend, EvictMode, NCycles, NIntervalChanges, NBudgetChanges

Keys    == 1..NKeys
Shards  == {ShardOf[k] : k \in Keys}
Clients == 1..NClients
JanP    == NClients + 1      \* janitor goroutine
CfgP    == NClients + 2      \* goroutine firing configuration events
SendP(i) == NClients + 2 + i \* one goroutine per interval notification (event.Fire spawns them)
Senders == {SendP(i) : i \in 1..NIntervalChanges}
Procs   == Clients \cup {JanP, CfgP} \cup Senders

VARIABLES
    prog,      \* [Procs -> sequence of instructions still to execute]
    holder,    \* [Shards -> 0 | proc]
    muW,       \* 0 | proc holding mu exclusively
    muR,       \* bag of readers: [Procs -> Nat]
    muWait,    \* set of procs announced as waiting writers
    chan,      \* number of values buffered in intervalChanged (0..1)
    opsLeft,   \* [Clients -> Nat]
    cycles,    \* janitor cycles left
    stopped,   \* janitor stop signal raised (Destroy)
    janAlive,  \* janitor goroutine still in its loop
    sent,      \* interval notifications not yet started
    budgets    \* budget changes not yet fired

vars == <<prog, holder, muW, muR, muWait, chan, opsLeft, cycles, stopped, janAlive, sent, budgets>>

\* instructions
L(s)  == <<"L", s>>     \* Lock shard s (blocking)
U(s)  == <<"U", s>>
T(s, n) == <<"T", s, n>>  \* TryLock shard s; on failure skip the next n instructions
RL == <<"RL">>  RU == <<"RU">>
MW == <<"MW">>  ML == <<"ML">>  MU == <<"MU">>   \* mu.Lock() = announce (MW) then acquire (ML)
SND == <<"SND">>

MuWrite == <<MW, ML, MU>>
MuRead  == <<RL, RU>>

RECURSIVE Concat(_)
Concat(ss) == IF ss = <<>> THEN <<>> ELSE Head(ss) \o Concat(Tail(ss))
KeySeq == [i \in 1..NKeys |-> i]

\* evict(): snapshot, then every candidate
EvictProg ==
    MuRead \o Concat([i \in 1..NKeys |->
        IF EvictMode = "try" THEN <<T(ShardOf[i], 4)>> \o MuWrite \o <<U(ShardOf[i])>>
        ELSE <<L(ShardOf[i])>> \o MuWrite \o <<U(ShardOf[i])>>])
CleanProg ==
    MuRead \o Concat([i \in 1..NKeys |->
        IF EvictMode = "try" THEN <<T(ShardOf[i], 6)>> \o MuRead \o MuWrite \o <<U(ShardOf[i])>>
        ELSE <<L(ShardOf[i])>> \o MuRead \o MuWrite \o <<U(ShardOf[i])>>])

OpProg(o, k, over) ==
    LET s == ShardOf[k] IN
    CASE o = "get"    -> <<L(s)>> \o MuRead \o <<U(s)>>
      [] o = "delete" -> <<L(s)>> \o MuWrite \o <<U(s)>>
      [] o = "store"  -> IF Backend = "memory"
                         THEN <<L(s)>> \o (IF over THEN EvictProg ELSE <<>>) \o MuWrite \o <<U(s)>>
                         ELSE (IF over THEN EvictProg ELSE <<>>) \o <<L(s)>> \o MuWrite \o <<U(s)>>

Init ==
    /\ prog = [p \in Procs |-> <<>>]
    /\ holder = [s \in Shards |-> 0]
    /\ muW = 0
    /\ muR = [p \in Procs |-> 0]
    /\ muWait = {}
    /\ chan = 0
    /\ opsLeft = [c \in Clients |-> NOps]
    /\ cycles = NCycles
    /\ stopped = FALSE
    /\ janAlive = TRUE
    /\ sent = NIntervalChanges
    /\ budgets = NBudgetChanges

NoReaders == \A p \in Procs : muR[p] = 0

\* can process p execute the head of its program now?
CanStep(p) ==
    /\ prog[p] # <<>>
    /\ LET i == Head(prog[p]) IN
       CASE i[1] = "L"  -> holder[i[2]] = 0
         [] i[1] = "U"  -> TRUE
         [] i[1] = "T"  -> TRUE
         [] i[1] = "RL" -> muW = 0 /\ muWait = {}
         [] i[1] = "RU" -> TRUE
         [] i[1] = "MW" -> TRUE
         [] i[1] = "ML" -> muW = 0 /\ NoReaders
         [] i[1] = "MU" -> TRUE
         [] i[1] = "SND" -> chan = 0

Step(p) ==
    /\ CanStep(p)
    /\ LET i == Head(prog[p])
           rest == Tail(prog[p])
       IN /\ CASE i[1] = "L" -> /\ holder' = [holder EXCEPT ![i[2]] = p]
                                /\ prog' = [prog EXCEPT ![p] = rest]
                                /\ UNCHANGED <<muW, muR, muWait, chan>>
               [] i[1] = "U" -> /\ holder' = [holder EXCEPT ![i[2]] = 0]
                                /\ prog' = [prog EXCEPT ![p] = rest]
                                /\ UNCHANGED <<muW, muR, muWait, chan>>
               [] i[1] = "T" -> IF holder[i[2]] = 0
                                THEN /\ holder' = [holder EXCEPT ![i[2]] = p]
                                     /\ prog' = [prog EXCEPT ![p] = rest]
                                     /\ UNCHANGED <<muW, muR, muWait, chan>>
                                ELSE /\ prog' = [prog EXCEPT ![p] = SubSeq(rest, i[3] + 1, Len(rest))]
                                     /\ UNCHANGED <<holder, muW, muR, muWait, chan>>
               [] i[1] = "RL" -> /\ muR' = [muR EXCEPT ![p] = @ + 1]
                                 /\ prog' = [prog EXCEPT ![p] = rest]
                                 /\ UNCHANGED <<holder, muW, muWait, chan>>
               [] i[1] = "RU" -> /\ muR' = [muR EXCEPT ![p] = @ - 1]
                                 /\ prog' = [prog EXCEPT ![p] = rest]
                                 /\ UNCHANGED <<holder, muW, muWait, chan>>
               [] i[1] = "MW" -> /\ muWait' = muWait \cup {p}
                                 /\ prog' = [prog EXCEPT ![p] = rest]
                                 /\ UNCHANGED <<holder, muW, muR, chan>>
               [] i[1] = "ML" -> /\ muW' = p
                                 /\ muWait' = muWait \ {p}
                                 /\ prog' = [prog EXCEPT ![p] = rest]
                                 /\ UNCHANGED <<holder, muR, chan>>
               [] i[1] = "MU" -> /\ muW' = 0
                                 /\ prog' = [prog EXCEPT ![p] = rest]
                                 /\ UNCHANGED <<holder, muR, muWait, chan>>
               [] i[1] = "SND" -> /\ chan' = 1
                                  /\ prog' = [prog EXCEPT ![p] = rest]
                                  /\ UNCHANGED <<holder, muW, muR, muWait>>
    /\ UNCHANGED <<opsLeft, cycles, stopped, janAlive, sent, budgets>>

\* a client starts its next operation
StartOp(c) ==
    /\ prog[c] = <<>>
    /\ opsLeft[c] > 0
    /\ \E o \in {"get", "delete", "store"}, k \in Keys, over \in BOOLEAN :
          /\ (o # "store") => ~over
          /\ prog' = [prog EXCEPT ![c] = OpProg(o, k, over)]
    /\ opsLeft' = [opsLeft EXCEPT ![c] = @ - 1]
    /\ UNCHANGED <<holder, muW, muR, muWait, chan, cycles, stopped, janAlive, sent, budgets>>

\* the janitor's select loop (only when it is between cycles)
JanTick ==
    /\ janAlive /\ prog[JanP] = <<>> /\ cycles > 0
    /\ prog' = [prog EXCEPT ![JanP] = CleanProg \o EvictProg]
    /\ cycles' = cycles - 1
    /\ UNCHANGED <<holder, muW, muR, muWait, chan, opsLeft, stopped, janAlive, sent, budgets>>
JanRecv ==
    /\ janAlive /\ prog[JanP] = <<>> /\ chan = 1
    /\ chan' = 0
    /\ UNCHANGED <<prog, holder, muW, muR, muWait, opsLeft, cycles, stopped, janAlive, sent, budgets>>
JanStop ==
    /\ janAlive /\ prog[JanP] = <<>> /\ stopped
    /\ janAlive' = FALSE
    /\ UNCHANGED <<prog, holder, muW, muR, muWait, chan, opsLeft, cycles, stopped, sent, budgets>>

\* configuration events: a budget change (memory backend listener takes mu), an interval change
\* (a fresh goroutine sends on the channel), Destroy (raises the stop signal; never blocks)
CfgBudget ==
    /\ Backend = "memory" /\ prog[CfgP] = <<>> /\ budgets > 0
    /\ prog' = [prog EXCEPT ![CfgP] = MuWrite]
    /\ budgets' = budgets - 1
    /\ UNCHANGED <<holder, muW, muR, muWait, chan, opsLeft, cycles, stopped, janAlive, sent>>
CfgInterval ==
    /\ sent > 0 /\ ~stopped
    /\ prog' = [prog EXCEPT ![SendP(sent)] = <<SND>>]
    /\ sent' = sent - 1
    /\ UNCHANGED <<holder, muW, muR, muWait, chan, opsLeft, cycles, stopped, janAlive, budgets>>
Destroy ==
    /\ ~stopped
    /\ stopped' = TRUE
    /\ UNCHANGED <<prog, holder, muW, muR, muWait, chan, opsLeft, cycles, janAlive, sent, budgets>>

BudgetOnce == TRUE
Next ==
    \/ \E p \in Procs : Step(p)
    \/ \E c \in Clients : StartOp(c)
    \/ JanTick \/ JanRecv \/ JanStop
    \/ CfgInterval \/ Destroy

NextB == Next \/ CfgBudget

Fair == /\ \A p \in Procs : WF_vars(Step(p))
        /\ WF_vars(JanRecv) /\ WF_vars(JanStop)
Spec  == Init /\ [][Next]_vars /\ Fair
SpecB == Init /\ [][NextB]_vars /\ Fair

-----------------------------------------------------------------------------
\* C14: nobody who has something to do is stuck forever.  A sender blocked on the full channel
\* after the janitor stopped is a parked goroutine of a dead listener, not an operation.
Working == {p \in Clients \cup {JanP, CfgP} : prog[p] # <<>>}
NoDeadlock == Working # {} => \E p \in Working : CanStep(p)
\* stronger: every individual working process can eventually move (no partial deadlock) -- liveness
OpsTerminate == \A p \in Clients \cup {JanP, CfgP} : (prog[p] # <<>>) ~> (prog[p] = <<>>)
\* an eviction started inside a store never blocks on a lock: while a client holds its own shard and
\* is inside EvictProg, its next instruction is never a blocking L on a shard
HoldsOwn(p) == \E s \in Shards : holder[s] = p
EvictNeverWaitsForOwnLock ==
    \A p \in Clients : (prog[p] # <<>> /\ Head(prog[p])[1] = "L" /\ HoldsOwn(p)) => FALSE
LocksReleased == (\A p \in Procs : prog[p] = <<>>) => (\A s \in Shards : holder[s] = 0) /\ muW = 0 /\ NoReaders
DestroyNeverBlocks == TRUE  \* Destroy is a single always-enabled step (stop() only closes a channel)
=============================================================================
