"""Proxy families: exhaustive TLC configurations of spec/Proxy.tla and replay / trace-validation runs that bind it
to proxy/proxy.go, proxy/fetcher.go and proxy/headers (C03 C04 C05 C06 C09, proxy-level C01)."""
import json, os, shutil, time
import vlib

ALLVALS = {"etag", "lm", "both", "none", "weak"}
BASE = dict(NRes=2, NClients=3, Forms="<- AllForms", FormStorable="<- StorableTab", FormLife="<- LifeTab", ValKinds=ALLVALS,
            DefaultAge=3, IgnoreCC=False, ForceDefault=False, PolicyFlips=False, Retry416=False, StoreMayRefuse=False, Unlinks=False, MaxVer=3, MaxNow=12, MaxX=8,
            Kinds={"get", "range", "head"}, Conds={"none", "inm", "ims", "bad"})


def fam(name, depth=30, backend="memory", genforms="AllForms", genvals=None, bodylen=256, limit=0, shards=0, chunked=False, late=False, **over):
    c = dict(BASE)
    c.update(over)
    return dict(name=name, consts=c, depth=depth, backend=backend, genforms=genforms, genvals=genvals or ALLVALS, bodylen=bodylen,
                limit=limit, shards=shards, chunked=chunked, late=late)


def policy_families():
    f = []
    for be in ("memory", "file"):
        f.append(fam("px_%s_default" % be, backend=be))
    f.append(fam("px_memory_ignorecc", IgnoreCC=True))
    f.append(fam("px_file_forcedefault", backend="file", ForceDefault=True))
    f.append(fam("px_memory_shipped_defaults", IgnoreCC=True, ForceDefault=True))
    # the policy switches (ignore_cache_control, force_default_max_age, default_max_age, retry_on_range_416) are changed at run
    # time: the proxy is built under the opposite values and the family's are set afterwards; the latest values govern
    f.append(fam("px_memory_policy_switched_off", late=True))
    f.append(fam("px_file_policy_switched_on", backend="file", late=True, IgnoreCC=True, ForceDefault=True))
    # the switches and default_max_age are changed in the middle of a history (action SetPolicy): an answer is judged by the values in force when
    # it arrives, an entry keeps the lifetime it was given
    f.append(fam("px_memory_policy_flips", PolicyFlips=True, genforms="FlipForms", NRes=1, Kinds={"get"}, Conds={"none", "inm"}))
    f.append(fam("px_file_policy_flips", backend="file", PolicyFlips=True, IgnoreCC=True, genforms="FlipForms", NRes=2, NClients=2,
                 Kinds={"get", "range"}, Conds={"none"}))
    return f


def flight_families():
    f = []
    for be in ("memory", "file"):
        f.append(fam("px_%s_flights" % be, backend=be, depth=34, genforms="FlightForms", NRes=1, Kinds={"get"}, Conds={"none", "inm"},
                     genvals={"etag", "none"}, MaxX=10))
    f.append(fam("px_memory_flights_bigbody", depth=30, genforms="FlightForms", NRes=1, Kinds={"get", "range"}, Conds={"none"},
                 genvals={"both"}, MaxX=10, bodylen=1 << 20))
    # a streamed 8 MiB body on the file backend: leader and followers are still copying while the others finish
    f.append(fam("px_file_flights_streamed", backend="file", depth=24, genforms="FlightForms", NRes=1, Kinds={"get"}, Conds={"none"},
                 genvals={"etag"}, MaxX=10, bodylen=8 << 20, chunked=True))
    return f


def retry_families():
    """retry_on_range_416 (the shipped default): range requests whose first answer is 416 are retried without Range"""
    f = []
    for be in ("memory", "file"):
        f.append(fam("px_%s_retry416" % be, backend=be, depth=30, genforms="SmallForms", NRes=1, NClients=2, Kinds={"get", "range"},
                     Conds={"none", "inm"}, Retry416=True, MaxX=10))
    return f


def refusal_families():
    """the cache refuses to keep the answer: empty bodies (the file backend keeps no empty files; the memory backend does)"""
    f = [fam("px_%s_emptybody" % be, backend=be, bodylen=0, depth=26, genforms="SmallForms", NRes=1, NClients=3, Kinds={"get", "head"},
             Conds={"none", "inm"}, genvals={"etag", "none"}, StoreMayRefuse=(be == "file"), MaxX=10) for be in ("file", "memory")]
    # no room: a memory cache of one lock shard and a 300-byte limit holds two 256-byte bodies at most (the limit is looked at
    # before a store); the store that finds it full cannot evict (every candidate shares the storing key's lock) and is refused
    f.append(fam("px_memory_full", backend="memory", depth=30, genforms="SmallForms", NRes=2, NClients=2, Kinds={"get"}, Conds={"none"},
                 genvals={"etag"}, StoreMayRefuse=True, MaxX=10, limit=300, shards=1))
    # the data file of an entry vanishes behind the cache's back (file backend): lookups fail, clients are served by the origin
    f.append(fam("px_file_lostfile", backend="file", depth=30, genforms="SmallForms", NRes=1, NClients=2, Kinds={"get", "range", "head"},
                 Conds={"none", "inm"}, genvals={"etag", "lm"}, Unlinks=True, MaxX=12))
    return f


def reval_families():
    f = []
    for be in ("memory", "file"):
        f.append(fam("px_%s_reval" % be, backend=be, depth=34, genforms="RevalForms", NRes=1, NClients=2, Kinds={"get"}, MaxX=8))
    f.append(fam("px_memory_reval_force", depth=34, genforms="RevalForms", NRes=1, NClients=2, Kinds={"get"}, ForceDefault=True))
    # the corner where directives are ignored but the origin's lifetime still governs (ignore_cache_control=true,
    # force_default_max_age=false): every spelling of max-age / Expires must win over a longer default
    f.append(fam("px_memory_reval_ignorecc", depth=34, genforms="RevalForms", NRes=1, NClients=2, Kinds={"get"}, IgnoreCC=True, DefaultAge=5))
    return f


# trace categories are property ids already
def all_families():
    return policy_families() + flight_families() + reval_families() + retry_families() + refusal_families()


def run_family(f, num, seed, keep=None):
    consts = dict(f["consts"])
    gen_cfg = vlib.cfg_text(dict(consts, Depth=f["depth"], GenForms="<- " + f["genforms"], GenVals=f["genvals"]),
                            spec="GenSpec", invariants=["PrintHist"])
    hists = vlib.tlc_simulate("ProxyGen", gen_cfg, num + num // 2 + 2, f["depth"], seed)[:num]
    return replay_and_validate(f, hists)


def driver_config(f):
    c = f["consts"]
    return {"backend": f["backend"], "ignoreCC": c["IgnoreCC"], "forceDefault": c["ForceDefault"], "defaultAge": c["DefaultAge"],
            "bodyLen": f["bodylen"], "emptyBody": f["bodylen"] == 0, "limitBytes": f.get("limit", 0), "shards": f.get("shards", 0), "chunked": f.get("chunked", False), "retry416": c.get("Retry416", False), "watchdogMs": 4000,
            "policyLate": f.get("late", False)}


def replay_and_validate(f, hists, inp=None):
    consts = dict(f["consts"])
    binp = vlib.go_build("proxydrv")
    d = vlib.scratch("proxyfam-")
    try:
        if inp is None:
            inp = {"family": f["name"], "config": driver_config(f), "behaviours": hists}
        json.dump(inp, open(os.path.join(d, "in.json"), "w"))
        t0 = time.time()
        rc, out, err, _ = vlib.run_driver(binp, ["-in", "in.json", "-out", "trace.ndjson"], cwd=d, timeout=1800)
        tdrv = time.time() - t0
        if rc != 0:
            raise vlib.Inconclusive("proxydrv exited %s: %s" % (rc, err[-2000:]))
        tr_cfg = vlib.cfg_text(dict(consts, MaxX=60, MaxVer=99, MaxNow=99999, TraceFile="trace.ndjson", BodyLen=f["bodylen"]),
                               spec="TraceSpec", postcondition="Report")
        lines = [json.loads(x) for x in open(os.path.join(d, "trace.ndjson"))]
        problems = []
        total = consumed = 0
        tlc_s = 0.0
        states = 0
        work = lines
        # a line that nothing explains ends the judging of its behaviour: cut that behaviour's tail and go on
        for _round in range(6):
            path = os.path.join(d, "t%d.ndjson" % _round)
            with open(path, "w") as fh:
                for ln in work:
                    fh.write(json.dumps(ln) + "\n")
            r = vlib.tlc_validate("ProxyTrace", tr_cfg, path, timeout=1800)
            tlc_s += r["wall"]
            states += r["distinct"]
            for b in r["allbad"]:
                ln = work[b["line"] - 1]
                problems.append(_problem(f, inp, work, b["line"], b["cats"], "soft"))
            consumed += r["consumed"]
            if r["consumed"] >= r["total"]:
                break
            ln = work[r["consumed"]]
            problems.append(_problem(f, inp, work, r["consumed"] + 1, ["struct"], "struct"))
            b = ln.get("b")
            rest = [x for x in work[r["consumed"] + 1:] if x.get("b") != b]
            if not rest:
                break
            work = rest
        kinds = {}
        for ln in lines:
            k = "%s:%s" % (ln.get("a"), ln.get("status", ln.get("kind", "")))
            kinds[k] = kinds.get(k, 0) + 1
        sample = [dict((k, v) for k, v in ln.items() if k not in ("stored", "storedVer")) for ln in lines if ln.get("b") == 1][:30]
        return {"family": f["name"], "behaviours": len(inp["behaviours"]), "lines": len(lines), "consumed": consumed,
                "driver_s": round(tdrv, 2), "tlc_s": round(tlc_s, 2), "states": states, "problems": problems, "kinds": kinds,
                "sample": sample}
    finally:
        shutil.rmtree(d, ignore_errors=True)


STRUCT_PROP = {"send": "C05", "reply": "C09", "disconnect": "C05", "shift": "C03", "evict": "C09", "ochange": "C06"}


def _problem(f, inp, work, lineno, cats, kind):
    ln = work[lineno - 1]
    b = ln.get("b")
    beh = inp["behaviours"][b - 1] if b and b - 1 < len(inp["behaviours"]) else []
    props = sorted(set(STRUCT_PROP.get(ln.get("a"), "C09") if c == "struct" else c for c in cats))
    ctx = [x for x in work[:lineno] if x.get("b") == b][-8:]
    return {"props": props, "cats": cats, "line": lineno, "behaviour": b, "kind": kind, "event": ln, "context": ctx,
            "replay_input": {"family": f["name"], "config": inp["config"], "behaviours": [beh]}}


INV = ["HitOnlyWhileFresh", "StoredIsStorable", "OneFetchPerFlight", "FollowersAccounted", "OriginClientsHaveContact",
       "NoOrphanFollowers", "ServedFromStoreIsCurrent"]


def mc(name, timeout=600, coverage=False, **over):
    c = dict(BASE)
    c.update(over)
    cfg = vlib.cfg_text(c, spec="Spec", invariants=INV, view="PView")
    r = vlib.tlc_check("MCProxy", cfg, timeout=timeout, coverage=coverage)
    r["name"] = name
    r["constants"] = {k: (sorted(v) if isinstance(v, (set, frozenset)) else v) for k, v in c.items()}
    return r


def c01_runs(tier, seed):
    """Proxy-level part of C01: bodies delivered from the store are complete, unmixed and paired with their metadata."""
    from concurrent.futures import ThreadPoolExecutor
    fl = [policy_families()[0], policy_families()[1], flight_families()[2], flight_families()[1], flight_families()[3]]
    n = 30 if tier == "quick" else 300
    vlib.go_build("proxydrv")
    with ThreadPoolExecutor(max_workers=5) as ex:
        results = list(ex.map(lambda t: run_family(t[1], n, seed * 1000 + 900 + t[0]), enumerate(fl)))
    out = {"violations": [], "notes": [], "coverage": {"proxy_level_families": []}, "traces": 0}
    for f, r in zip(fl, results):
        out["traces"] += r["behaviours"]
        out["coverage"]["proxy_level_families"].append({k: r[k] for k in ("family", "behaviours", "lines", "consumed")})
        for p in r["problems"]:
            if "C01" in p["props"]:
                from props.proxycommon import confirmed
                if not confirmed(f, p, "C01"):
                    out["notes"].append("proxy family %s: a mismatch at line %d did not reproduce when replayed alone; not counted" % (f["name"], p["line"]))
                    continue
                out["violations"].append(vlib.save_replay("C01", "%s-%s-seed%d.json" % (f["name"], vlib.digest(p["replay_input"]), seed),
                                                          {"kind": "proxydrv", "problem": {k: p[k] for k in ("props", "cats", "line", "event", "context", "kind")},
                                                           "input": p["replay_input"]}))
            else:
                out["notes"].append("proxy family %s: first mismatch (line %d) concerns %s" % (f["name"], p["line"], ",".join(p["props"])))
    return out
