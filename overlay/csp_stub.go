package csp

// Stub for the generated constant that this checkout lacks (supplied to go build through -overlay by
// the verification harness only; no file under /repo is shadowed).
const Header = "default-src 'self'"
