-------------------------- MODULE JanitorCtlTrace --------------------------
(* Judges recorded runs of the real janitor (harness/cmd/jandrv): each line is a visible step -- "hold" (the       *)
(* janitor is parked inside a cycle), "release", "change" v -- followed by the interval the janitor runs on once    *)
(* everything that can happen without the environment has happened (observed through the janitor's own "interval" *)
(* event).  The specification's internal steps are applied to their fixpoint after every visible step.             *)
EXTENDS JanitorCtl, Json, IOUtils
CONSTANTS TraceFile
TraceLog == ndJsonDeserialize(TraceFile)
VARIABLES l, bads
tvars == <<vars, l, bads>>
Line == TraceLog[l]
Is(a) == l <= Len(TraceLog) /\ Line.a = a
Note(p) == /\ bads' = IF p # {} /\ Len(bads) < 60 THEN Append(bads, [line |-> l, cats |-> p]) ELSE bads
           /\ TLCSet(1, [l |-> l + 1, bads |-> bads'])
Apply(q, b, j, bz) == LET s == SettleF(q, b, j, bz) IN queue' = s.queue /\ box' = s.box /\ jan' = s.jan /\ busy' = bz
Judge == Note(IF Line.jan = jan' THEN {} ELSE IF Line.jan = cfg' THEN {"spec_lags"} ELSE {"interval_not_latest"})
TReset  == Is("reset") /\ cfg' = 0 /\ nch' = 0 /\ Apply(<<>>, <<>>, 0, FALSE) /\ l' = l + 1 /\ Note({})
TChange == Is("change") /\ cfg' = Line.v /\ nch' = nch + 1 /\ Apply(Append(queue, Line.v), box, jan, busy) /\ l' = l + 1 /\ Judge
THold   == Is("hold") /\ UNCHANGED <<cfg, nch>> /\ Apply(queue, box, jan, TRUE) /\ l' = l + 1 /\ Judge
TRel    == Is("release") /\ UNCHANGED <<cfg, nch>> /\ Apply(queue, box, jan, FALSE) /\ l' = l + 1 /\ Judge
TraceInit == Init /\ l = 1 /\ bads = <<>> /\ TLCSet(1, [l |-> 1, bads |-> <<>>])
TraceNext == TReset \/ TChange \/ THold \/ TRel
TraceSpec == TraceInit /\ [][TraceNext]_tvars
Report == LET r == TLCGet(1) IN /\ PrintT(<<"TRACE-ALL", r.bads>>)
                                /\ PrintT(<<"TRACE-RESULT", r.l - 1, Len(TraceLog), [line |-> 0]>>)
=============================================================================
