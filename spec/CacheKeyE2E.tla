---------------------------- MODULE CacheKeyE2E ----------------------------
EXTENDS CacheKey
VARIABLE dummy
ASSUME EJudge
Spec == dummy = 0 /\ [][FALSE]_dummy
=============================================================================
