"""C17 Saved config reads back identically; CLI overrides win but are not saved (spec/ByteSize.tla, ConfigCells.tla)."""
import time
import vlib, inputfam
from props.inputcommon import finish


def run(tier, seed):
    t0 = time.time()
    s = inputfam.size_run(3 if tier == "quick" else 4)
    parts = [dict(name="byte_size_grammar_value_roundtrip", evaluations=s["cases"], distinct=s["cases"], bad=s["bad_strings"] + s["bad_values"],
                  detail=s["detail"], sample=s["sample"])]
    try:
        import cfgfam
        parts += cfgfam.c17_parts(tier, seed)
    except ImportError:
        pass
    return finish("C17", tier, t0, parts,
                  "TLC enumerates size strings (token sequences of length <=3/4 over digits, units, lower-case, garbage, blanks, a 20-digit number) and byte counts at "
                  "and around every unit boundary incl. non-multiples; the Go driver runs bytesize.Parse / String on each; TLC judges acceptance against the grammar "
                  "digits+unit, the value as digits*unit (quotient/remainder by the unit) and String-then-Parse identity. Config save/load and override sequences "
                  "are judged by ConfigCells when present in 'parts'.",
                  ["values above 2^31 are compared through quotient and remainder by their unit (TLC integers are 32 bit)"])


def replay(path):
    print(open(path).read()[:2000])
    return run("quick", vlib.seed())
