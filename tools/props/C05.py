"""C05 Concurrent identical requests share one origin fetch; each gets a full answer (spec/Proxy.tla)."""
import proxyfam
from props.proxycommon import run_proxy_property, replay_file, RULE, ASSUME


def fams(tier):
    # every family is judged for every property of the Proxy specification (a mismatch is reported by the
    # property it concerns, whichever family shows it)
    return proxyfam.flight_families() + proxyfam.policy_families() + proxyfam.reval_families() + proxyfam.retry_families() + proxyfam.refusal_families()


def run(tier, seed):
    extra = []
    try:
        import props.C05x as x
        extra = x.EXTRA
    except ImportError:
        pass
    return run_proxy_property("C05", tier, seed, fams, 40, 400, RULE, ASSUME, extra_runs=extra)


def replay(path):
    return replay_file("C05", path)
