------------------------------ MODULE EventBus ------------------------------
(***************************************************************************)
(* Change notification (utils/event, config.ConfigProp.OnChange) for C19.  *)
(* Listeners subscribe to a setting, the setting fires a value at every    *)
(* change, every listener is called asynchronously with the value, and a   *)
(* component that shuts down unsubscribes.                                  *)
(*                                                                         *)
(* Intended design ("Mailbox"): per listener at most one call is in flight *)
(* and a newer value replaces an undelivered older one, so calls reach a   *)
(* listener in firing order and it ends up with the latest value;          *)
(* unsubscribing removes exactly that listener.                            *)
(* Deviations of the pinned tree (constant Dev):                           *)
(*   "GoPerCall"     one goroutine per (listener, fire): calls of one      *)
(*                   listener may complete in any order                    *)
(*   "IndexUnsub"    Unsubscribe removes whatever sits at the index the    *)
(*                   listener had when it subscribed (wrong listener, or   *)
(*                   out of range = panic)                                 *)
(***************************************************************************)
EXTENDS Integers, Sequences, FiniteSets, TLC

CONSTANTS NListeners, MaxFires, Dev

L == 1..NListeners
Has(d) == d \in Dev

VARIABLES
    subs,      \* sequence of subscribed listener ids (slice order)
    idx,       \* [L -> index captured at subscription (0: never subscribed)]
    state,     \* [L -> "new" | "live" | "dead"]
    inflight,  \* set of <<l, v>> calls started and not yet completed
    mailbox,   \* [L -> pending value, 0 = none]   (Mailbox design only)
    seen,      \* [L -> value of the last completed call, 0 = none]
    cur,       \* last fired value (0 = none yet)
    fires,     \* number of fires so far
    subAt,     \* ghost: [L -> fires at the time of subscription]
    panicked,  \* an Unsubscribe panicked
    lateCall   \* ghost: a call was started for a listener after its Unsubscribe returned

vars == <<subs, idx, state, inflight, mailbox, seen, cur, fires, subAt, panicked, lateCall>>

Init ==
    /\ subs = <<>> /\ idx = [l \in L |-> 0] /\ state = [l \in L |-> "new"]
    /\ inflight = {} /\ mailbox = [l \in L |-> 0] /\ seen = [l \in L |-> 0]
    /\ cur = 0 /\ fires = 0 /\ subAt = [l \in L |-> 0] /\ panicked = FALSE /\ lateCall = FALSE

InSubs(l) == \E i \in 1..Len(subs) : subs[i] = l
Remove(s, i) == SubSeq(s, 1, i - 1) \o SubSeq(s, i + 1, Len(s))

Subscribe(l) ==
    /\ state[l] = "new" /\ ~panicked
    /\ subs' = Append(subs, l)
    /\ idx' = [idx EXCEPT ![l] = Len(subs) + 1]
    /\ state' = [state EXCEPT ![l] = "live"]
    /\ subAt' = [subAt EXCEPT ![l] = fires]
    /\ UNCHANGED <<inflight, mailbox, seen, cur, fires, panicked, lateCall>>

Unsubscribe(l) ==
    /\ state[l] = "live" /\ ~panicked
    /\ state' = [state EXCEPT ![l] = "dead"]
    /\ IF Has("IndexUnsub")
       THEN IF idx[l] > Len(subs)
            THEN panicked' = TRUE /\ subs' = subs
            ELSE panicked' = FALSE /\ subs' = Remove(subs, idx[l])
       ELSE /\ panicked' = FALSE
            /\ subs' = SelectSeq(subs, LAMBDA x : x # l)
    /\ mailbox' = [mailbox EXCEPT ![l] = 0]
    /\ UNCHANGED <<idx, inflight, seen, cur, fires, subAt, lateCall>>

Fire ==
    /\ fires < MaxFires /\ ~panicked
    /\ fires' = fires + 1
    /\ cur' = fires + 1
    /\ LET v == fires + 1
           targets == {subs[i] : i \in 1..Len(subs)}
       IN IF Has("GoPerCall")
          THEN /\ inflight' = inflight \cup {<<l, v>> : l \in targets}
               /\ mailbox' = mailbox
               /\ lateCall' = (lateCall \/ \E l \in targets : state[l] = "dead")
          ELSE \* a listener with a call in flight gets the value through its mailbox
               /\ inflight' = inflight \cup {<<l, v>> : l \in {t \in targets : ~\E c \in inflight : c[1] = t}}
               /\ mailbox' = [l \in L |-> IF l \in targets /\ (\E c \in inflight : c[1] = l) THEN v ELSE mailbox[l]]
               /\ lateCall' = (lateCall \/ \E l \in targets : state[l] = "dead")
    /\ UNCHANGED <<subs, idx, state, seen, subAt, panicked>>

\* one in-flight call completes (any of them: goroutine scheduling)
Complete(c) ==
    /\ c \in inflight
    /\ seen' = [seen EXCEPT ![c[1]] = c[2]]
    /\ IF ~Has("GoPerCall") /\ mailbox[c[1]] # 0 /\ state[c[1]] = "live"
       THEN /\ inflight' = (inflight \ {c}) \cup {<<c[1], mailbox[c[1]]>>}
            /\ mailbox' = [mailbox EXCEPT ![c[1]] = 0]
       ELSE /\ inflight' = inflight \ {c}
            /\ mailbox' = [mailbox EXCEPT ![c[1]] = 0]
    /\ UNCHANGED <<subs, idx, state, cur, fires, subAt, panicked, lateCall>>

Next == \/ \E l \in L : Subscribe(l) \/ Unsubscribe(l)
        \/ Fire
        \/ \E c \in inflight : Complete(c)
Spec == Init /\ [][Next]_vars

Quiescent == inflight = {} /\ \A l \in L : mailbox[l] = 0
\* C19
UnsubNeverPanics == ~panicked
ShutDownNotNotified == ~lateCall
OthersKeepNotifications == \A l \in L : state[l] = "live" => InSubs(l)
FollowersHaveLatest == Quiescent => \A l \in L : (state[l] = "live" /\ subAt[l] < fires) => seen[l] = cur
=============================================================================
