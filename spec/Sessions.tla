------------------------------ MODULE Sessions ------------------------------
(***************************************************************************)
(* The dashboard API gate (webserver/api, webserver/auth, middleware) for  *)
(* C20.  Session handles s1..sN are the cookies successful logins hand     *)
(* out; a request carries one of them, a made-up cookie ("junk") or none.  *)
(* Every route except login requires a live session.  A cross-site request *)
(* is refused before any handler runs.                                     *)
(*   cross-site: Sec-Fetch-Site = cross-site, or no Sec-Fetch-Site and an  *)
(*   Origin that is not this host.  ("contradictory" combinations -- a     *)
(*   same-origin Sec-Fetch-Site with a foreign Origin -- may go either way)*)
(***************************************************************************)
EXTENDS Integers, Sequences, FiniteSets, TLC

CONSTANTS NSessions, Routes, MaxSteps
\* Routes: set of [path, method, auth]

S == 1..NSessions
Cookies == {"none", "junk"} \cup {"s" \o ToString(i) : i \in S}
Origins == {"none", "same", "other"}
Sites == {"absent", "same-origin", "same-site", "cross-site", "none"}
Passwords == {"p0", "p1"}

VARIABLES st,      \* [S -> "unused" | "live" | "out" | "expired"]
          pwd,     \* the password whose stored hash verifies
          cfgver,  \* number of accepted config changes (effect counter)
          steps, last
vars == <<st, pwd, cfgver, steps, last>>

Init == st = [s \in S |-> "unused"] /\ pwd = "p0" /\ cfgver = 0 /\ steps = 0 /\ last = [status |-> "none", effect |-> "none"]

Handle(c) == IF c \in {"none", "junk"} THEN 0 ELSE CHOOSE i \in S : c = "s" \o ToString(i)
Live(c) == Handle(c) # 0 /\ st[Handle(c)] = "live"
NextHandle == IF \E i \in S : st[i] = "unused" THEN CHOOSE i \in S : st[i] = "unused" /\ \A j \in S : st[j] = "unused" => i <= j ELSE 0

CrossSite(origin, site) == site = "cross-site" \/ (site = "absent" /\ origin = "other")
\* combinations a browser does not produce / that may be refused although they are not cross-site
Ambiguous(origin, site) == (site \in {"same-origin", "same-site"} /\ origin = "other") \/ (site = "none" /\ origin # "none")

Resp(s, e) == [status |-> s, effect |-> e]
Step == steps < MaxSteps /\ steps' = steps + 1

\* kind: "login" (with password pw), "logout", "chpw" (cur, new), "patchcfg", "get" (any other route)
Request(kind, cookie, origin, site, pw, newpw, auth) ==
    /\ Step
    \* (the model has NSessions session slots: a login that would need one more is not a step of the bounded model)
    /\ (kind = "login" /\ ~CrossSite(origin, site) /\ ~Live(cookie) /\ pw = pwd) => NextHandle # 0
    /\ IF CrossSite(origin, site)
       THEN last' = Resp("403", "none") /\ UNCHANGED <<st, pwd, cfgver>>
       ELSE IF auth /\ ~Live(cookie)
       THEN last' = Resp("401", "none") /\ UNCHANGED <<st, pwd, cfgver>>
       ELSE CASE kind = "login" ->
                   IF Live(cookie) THEN last' = Resp("2xx", "none") /\ UNCHANGED <<st, pwd, cfgver>>
                   ELSE IF pw = pwd /\ NextHandle # 0
                   THEN /\ st' = [st EXCEPT ![NextHandle] = "live"]
                        /\ last' = Resp("2xx", "session") /\ UNCHANGED <<pwd, cfgver>>
                   ELSE last' = Resp("401", "none") /\ UNCHANGED <<st, pwd, cfgver>>
              [] kind = "logout" ->
                   /\ st' = [st EXCEPT ![Handle(cookie)] = "out"]
                   /\ last' = Resp("2xx", "logout") /\ UNCHANGED <<pwd, cfgver>>
              [] kind = "chpw" ->
                   IF pw = pwd THEN pwd' = newpw /\ last' = Resp("2xx", "password") /\ UNCHANGED <<st, cfgver>>
                   ELSE last' = Resp("4xx", "none") /\ UNCHANGED <<st, pwd, cfgver>>
              [] kind = "patchcfg" ->
                   /\ cfgver' = cfgver + 1 /\ last' = Resp("2xx", "config") /\ UNCHANGED <<st, pwd>>
              [] OTHER -> last' = Resp("2xx", "none") /\ UNCHANGED <<st, pwd, cfgver>>

\* a session's lifetime runs out (by whatever margin)
Expire(i) == /\ Step /\ st[i] = "live" /\ st' = [st EXCEPT ![i] = "expired"]
             /\ last' = Resp("none", "none") /\ UNCHANGED <<pwd, cfgver>>

Kinds == {"login", "logout", "chpw", "patchcfg", "get"}
Next ==
    \/ \E k \in Kinds, c \in Cookies, o \in Origins, s \in Sites, pw \in Passwords, np \in Passwords :
          ~Ambiguous(o, s) /\ Request(k, c, o, s, pw, np, k # "login")
    \/ \E i \in S : Expire(i)
Spec == Init /\ [][Next]_vars

\* C20
NoSessionNoEffect == last.status \in {"401", "403"} => last.effect = "none"
ExpiredStaysExpired == [][\A i \in S : st[i] \in {"expired", "out"} => st'[i] = st[i]]_vars
=============================================================================
