"""C10 Each exchange on a CONNECT tunnel is isolated and equals plain proxying (spec/Tunnel.tla)."""
import json, time
import vlib, relayfam

RULE = ("spec/Tunnel.tla keeps the tunnel's responder object explicit (header map carried from exchange to exchange unless FreshResponder); TLC "
        "checks Isolated (every response is a function of its own request and the store) on all sequences of 16 exchange kinds up to length 4, and "
        "shows the invariant violated for the one-responder-per-tunnel deviation (negative control). Every sequence of length 2 (quick) / 2..3 "
        "(thorough) over the 16 kinds (GET sized/chunked/1 MiB/404/no-store, POST 201, HEAD of sized/chunked/error resources, satisfiable and unsatisfiable Range) is run on the "
        "real proxy four ways -- one shared tunnel, one tunnel per exchange, plain HTTP, and pipelined over one tunnel (every request written before the first answer is read; not with Expect: 100-continue) -- and TunnelTrace judges every exchange: status, tracked "
        "header names (none foreign, none missing), body identity, no unread bytes on the tunnel, and agreement of the ways on every tracked "
        "header value. distinct_nontrivial = sequences.")
ASSUME = ["the origin ignores Range, so range answers are slices the proxy cuts from the stored body",
          "Content-Length vs chunked framing is the writer's choice; a wrong length shows as a wrong body, a failed read or left-over bytes",
          "Date/Age/X-Cache/Cache-Status/ETag/Last-Modified are not compared between the ways"]


def run(tier, seed):
    t0 = time.time()
    mcs = relayfam.tunnel_mc()
    if not mcs[0].get("complete"):
        raise vlib.Inconclusive("TLC did not complete Tunnel: %s %s" % (mcs[0]["violated"], mcs[0]["out"][-800:]))
    if "Isolated" not in str(mcs[1].get("violated")):
        raise vlib.Inconclusive("negative control: Isolated was not violated with a responder shared by the whole tunnel")
    runs = [("memory", 2)] if tier == "quick" else [("memory", 3), ("file", 2)]
    viol, parts, sample = [], [], None
    for backend, maxlen in runs:
        r = relayfam.tunnel_run(maxlen, backend=backend)
        parts.append({k: r[k] for k in ("backend", "sequences", "lines", "consumed", "kinds")})
        sample = sample or r["sample"]
        seen = set()
        for p in r["problems"]:
            key = (tuple(p["cats"]), p["event"].get("k"))
            if key in seen:
                continue
            seen.add(key)
            print("mismatch %s at exchange %s of sequence %s" % (",".join(p["cats"]), p["event"].get("i"), p["seq"]))
            viol.append(vlib.save_replay("C10", "tunnel-%s-%s-seed%d.json" % (backend, vlib.digest([p["seq"], p["cats"]]), seed),
                                         {"kind": "relaydrv-seq", "backend": backend, "cats": p["cats"], "event": p["event"], "input": p["replay_input"]}))
    nseq = sum(p["sequences"] for p in parts)
    cov = {"states": mcs[0].get("distinct"), "transitions": mcs[0].get("states"), "traces_validated_against_impl": nseq,
           "evaluations": sum(p["lines"] for p in parts), "distinct_nontrivial": nseq, "rule": RULE, "parts": parts, "samples": [sample],
           "negative_control": {"config": mcs[1]["name"], "violated": mcs[1].get("violated")}}
    vlib.write_evidence("C10", tier, "model_checking", cov, time.time() - t0, len(viol), ASSUME)
    return viol[:40]


def replay(path):
    art = json.load(open(path))
    r = relayfam.tunnel_run(0, backend=art.get("backend", "memory"), seqs=art["input"])
    for p in r["problems"]:
        print("replayed:", p["cats"], json.dumps(p["event"])[:600])
    return [path] if r["problems"] else []
