---------------------------- MODULE CacheStoreTrace ----------------------------
(***************************************************************************)
(* Trace validation (code -> specification) for CacheStore.                *)
(*                                                                         *)
(* The Go driver (harness/cmd/cachedrv) steps the real MemoryCache /       *)
(* FileCache and writes one NDJSON line per step: the step it performed,   *)
(* what the real code returned, and the projection of the real state onto  *)
(* the specification's variables ("snap").  Every line is matched with the *)
(* CacheStore action it claims to be; the action's arguments are bound     *)
(* from the line, the action itself (guards and effect) is CacheStore's.   *)
(*                                                                         *)
(* Checks on top of the action are soft: the first line on which the real  *)
(* code's answer or projected state differs from the specification's is    *)
(* recorded in `bad` together with the categories that differ              *)
(*   "data"     returned/readable content, versions, metadata  (C01)       *)
(*   "counters" reported size / count / directory              (C12)       *)
(*   "evict"    eviction and cleanup decisions                 (C13)       *)
(* and validation continues (so a later structural break is still seen).   *)
(* A line that no action can explain at all stops the trace: the           *)
(* high-water mark then stays below Len(TraceLog).                         *)
(***************************************************************************)
EXTENDS MCCacheStore, Json, IOUtils

CONSTANT TraceFile

TraceLog == ndJsonDeserialize(TraceFile)

VARIABLES l,     \* next line to consume
          bad    \* first soft mismatch: [line, cats] or [line |-> 0]

tvars == <<vars, l, bad>>

F(r, name, dflt) == IF name \in DOMAIN r THEN r[name] ELSE dflt
Line == TraceLog[l]
Is(a) == l <= Len(TraceLog) /\ Line.a = a
Res   == F(Line, "res", "")

-----------------------------------------------------------------------------
(* projection comparison                                                     *)
Snap == Line.snap
SnapEnt(k) == Snap.ents[k]

\* after the step: does the real projected state equal the specification's?
EntsMatch ==
    \A k \in Keys :
        LET re == SnapEnt(k)
            me == entries'[k]
        IN /\ re.present = me.present
           /\ me.present => /\ re.size = me.size /\ re.ver = me.ver /\ re.ok = k /\ re.on = me.size
                            /\ re.exp = me.exp
CountersMatch ==
    /\ Snap.bytes = bytes' * Snap.chunk
    /\ Snap.count = count'
    /\ Snap.mbytes = bytes' * Snap.chunk
    /\ Snap.mcount = count'
    /\ Snap.stray = 0
LimitMatch == Snap.limit = limit' * Snap.chunk
\* directory listing, meaningful when nothing is in flight
FilesMatch ==
    IsFile => /\ \A k \in Keys : Snap.files[k] = (IF entries'[k].present THEN entries'[k].size ELSE -1)
              /\ Snap.otherfiles = 0
QuiescentNext == (\A p \in Clients : pc'[p] = "idle") /\ (\A s \in Shards : lock'[s] = Free)

EvictOK == EvictOnlyWhenOver /\ EvictPost /\ EvictStopsAtTarget /\ EvictOrder /\ CleanupRemovesOnlyExpired

\* categories that differ on this line, given the line-specific result check `dataOK`
\* "racy": blocked callers ran between this step and its projection; the projection then belongs to
\* a later line and is not compared here
Racy == F(Line, "racy", FALSE)
\* An eviction / cleanup decision that differs from the specification's explains any content or
\* counter difference on the same line, so it is reported alone.
Cats(dataOK, evictOK) ==
    IF ~(evictOK /\ EvictOK' /\ (Racy \/ LimitMatch)) THEN {"evict"}
    ELSE (IF dataOK /\ (Racy \/ EntsMatch) THEN {} ELSE {"data"})
         \cup (IF Racy \/ (CountersMatch /\ (QuiescentNext => FilesMatch)) THEN {} ELSE {"counters"})

Consume3(dataOK, evictOK, freshOK) ==
    /\ l' = l + 1
    /\ LET c == Cats(dataOK, evictOK) \cup (IF freshOK THEN {} ELSE {"fresh"})
       IN bad' = IF bad.line = 0 /\ c # {}
                 THEN [line |-> l, cats |-> c, m_entries |-> entries', m_bytes |-> bytes', m_count |-> count',
                       m_lastEv |-> lastEv', m_jan |-> jan', m_lock |-> lock']
                 ELSE bad
    /\ TLCSet(1, [l |-> l + 1, bad |-> bad'])

Consume(dataOK, evictOK) == Consume3(dataOK, evictOK, TRUE)
Skip == /\ l' = l + 1 /\ UNCHANGED <<vars, bad>> /\ TLCSet(1, [l |-> l + 1, bad |-> bad])

-----------------------------------------------------------------------------
(* one trace action per line kind                                            *)

TReset ==
    /\ Is("reset")
    /\ entries' = [k \in Keys |-> NoEntry] /\ path' = [k \in Keys |-> 0] /\ objs' = [i \in 1..MaxObj |-> NoObj]
    /\ bytes' = 0 /\ count' = 0 /\ dead' = [k \in Keys |-> {}] /\ lock' = [s \in Shards |-> Free]
    /\ pc' = [p \in Clients |-> "idle"] /\ op' = [p \in Clients |-> NoOp] /\ pend' = [p \in Clients |-> NoPend]
    /\ handles' = [h \in 1..MaxHandles |-> NoHandle] /\ clock' = 1 /\ nextVer' = [k \in Keys |-> 1]
    /\ jan' = JanIdle /\ limit' = InitLimit /\ lastEv' = NoEv
    /\ Consume(TRUE, TRUE)

\* the driver set LastAccess of the present entries to now - age*TickMs
TStamp ==
    /\ Is("stamp")
    /\ entries' = [k \in Keys |-> IF entries[k].present /\ Line.ages[k] >= 0
                                  THEN [entries[k] EXCEPT !.la = clock - Line.ages[k]] ELSE entries[k]]
    /\ UNCHANGED <<path, objs, bytes, count, dead, lock, pc, op, pend, handles, clock, nextVer, jan, limit, lastEv>>
    /\ l' = l + 1 /\ UNCHANGED bad /\ TLCSet(1, [l |-> l + 1, bad |-> bad])

\* normalise a direct line ("a" is the op) and a resume line ("op" is the op)
OpName == IF Line.a = "resume" THEN Line.op ELSE Line.a
IsOp(o) == l <= Len(TraceLog) /\ Line.a \in {o, "resume"} /\ OpName = o
CallOfLine ==
    \* (the point at which a source fails is a prophecy of the generator; in a recorded run the
    \* failure is simply observed, so recorded stores carry failAt = -1 and aborts may come anywhere)
    CASE OpName = "store"  -> <<"store", Line.k, Line.n, -1>>
      [] OpName = "get"    -> <<"get", Line.k>>
      [] OpName = "delete" -> <<"delete", Line.k>>
      [] OpName = "update" -> <<"update", Line.k, Line.e>>

\* observed eviction outcome of a store: entries that were present before and are gone after
ObsRemoved == {x \in Keys : entries[x].present /\ ~SnapEnt(x).present}
SkipKeys(prefix) == {x \in Keys : \E i \in 1..Len(F(Line, "skips", <<>>)) :
                                     Line.skips[i] = prefix \o ":" \o ToString(x)}
ObsEvict ==
    [ent |-> [x \in Keys |-> IF x \in ObsRemoved THEN NoEntry ELSE entries[x]],
     b |-> bytes - SumSizes(entries, ObsRemoved), removed |-> ObsRemoved, skipped |-> SkipKeys("evict_skip")]

TBlocked ==
    /\ l <= Len(TraceLog) /\ Line.a \in {"store", "get", "delete", "update"} /\ Res = "blocked"
    /\ BlockR(Line.p, CallOfLine, IF BlockOver(CallOfLine) THEN ObsEvict ELSE NoEvict)
    /\ Consume(TRUE, ~BlockOver(CallOfLine) => ObsRemoved = {})

TStore ==
    /\ IsOp("store") /\ Res \in {"parked", "refused"}
    /\ Res = "parked" => Line.v = nextVer[Line.k]
    /\ StoreBeginR(Line.p, Line.k, Line.n, -1,
                   IF ~StoreOver(Line.p) THEN NoEvict
                   ELSE IF Racy THEN Evict(StoreLimit, StoreHeld(Line.k)) ELSE ObsEvict)
    /\ Consume(TRUE, (Res = "refused") = (pc'[Line.p] = "idle")
                     /\ (~StoreOver(Line.p) /\ ~Racy => ObsRemoved = {}))

TChunk ==
    /\ Is("chunk") /\ Res = "parked"
    /\ StoreChunk(Line.p)
    /\ Consume(TRUE, TRUE)

TCommit ==
    /\ Is("commit") /\ Res = "ok"
    /\ StoreCommit(Line.p)
    /\ Consume(/\ Line.size = op[Line.p].n /\ Line.ok = op[Line.p].k /\ Line.ov = op[Line.p].v
               /\ Line.on = op[Line.p].n /\ Line.rb, TRUE)

TAbort ==
    /\ Is("abort") /\ Res \in {"srcfail", "empty"}
    /\ pc[Line.p] = "copying"
    /\ AbortEff(Line.p)
    /\ Consume((Res = "empty") => (IsFile /\ op[Line.p].n = 0), TRUE)

\* a commit step the code turned into an error, or an abort step the code turned into a success:
\* structurally still a completed store call; the difference is a data mismatch
TCommitFailed ==
    /\ Is("commit") /\ Res \notin {"ok", "hang", "nostore"}
    /\ pc[Line.p] = "copying"
    /\ AbortEff(Line.p)
    /\ Consume(FALSE, TRUE)
TAbortCommitted ==
    /\ Is("abort") /\ Res = "ok"
    /\ pc[Line.p] = "copying"
    /\ AbortEff(Line.p)
    /\ Consume(FALSE, TRUE)

\* (A lookup that answers without waiting for a held shard lock is accepted as long as its answer
\* is the one the specification gives for the current state: the property does not demand blocking.)
TGet ==
    /\ IsOp("get") /\ Res \in {"hit", "notfound", "fileread"} /\ ~(Res = "hit" /\ Line.h = 0)
    /\ GetBody(Line.p, Line.k)
    /\ LET e == entries[Line.k]
           modelHit == e.present /\ ~(IsFile /\ path[Line.k] = 0)
       IN Consume3(IF Res = "hit"
                   THEN /\ modelHit
                        /\ Line.size = e.size /\ Line.ov = e.ver /\ Line.ok = Line.k /\ Line.on = e.size
                        /\ Line.h > 0 /\ handles'[Line.h].open /\ ~handles[Line.h].open
                   ELSE ~modelHit, TRUE,
                   \* the lookup reports the entry stale exactly if its lifetime has elapsed (C03)
                   Res = "hit" /\ modelHit => Line.stale = e.exp)

\* a hit while every handle slot of the driver is taken: the driver closed the handle at once
TGetNoSlot ==
    /\ IsOp("get") /\ Res = "hit" /\ Line.h = 0 /\ FreeHandles = {}
    /\ Ready(Line.p, <<"get", Line.k>>) /\ Finish(Line.p)
    /\ entries[Line.k].present
    /\ entries' = [entries EXCEPT ![Line.k].la = clock]
    /\ clock' = Tick
    /\ UNCHANGED <<path, objs, bytes, count, dead, lock, op, handles, nextVer, jan, limit, lastEv>>
    /\ LET e == entries[Line.k]
       IN Consume3(/\ Line.size = e.size /\ Line.ov = e.ver /\ Line.ok = Line.k /\ Line.on = e.size, TRUE,
                   Line.stale = e.exp)

\* the real code reported a hit although no handle slot was free in the driver / model: cannot happen
\* for generated schedules; treated as not explainable.

TRead ==
    /\ Is("read") /\ Res \in {"chunk", "eof", "garbage", "short"}
    /\ Read(Line.h)
    /\ LET hd == handles[Line.h]
           o  == objs[hd.obj]
       IN Consume(/\ ~handles'[Line.h].bad
                  /\ IF Res = "chunk" THEN hd.pos < o.w /\ Line.ck = hd.k /\ Line.cv = hd.ver /\ Line.ci = hd.pos + 1
                     ELSE Res = "eof" /\ hd.pos = hd.size, TRUE)

\* reading on after end-of-file keeps answering end-of-file
TReadEofAgain ==
    /\ Is("read") /\ Res = "eof" /\ handles[Line.h].open /\ handles[Line.h].eof
    /\ Skip

TClose ==
    /\ Is("close") /\ Res = "ok"
    /\ CloseH(Line.h)
    /\ Consume(TRUE, TRUE)

TDelete ==
    /\ IsOp("delete") /\ Res \in {"ok", "notfound"}
    /\ Delete(Line.p, Line.k)
    /\ Consume(TRUE, TRUE)

TUpdate ==
    /\ IsOp("update") /\ Res \in {"ok", "notfound"}
    /\ UpdateMeta(Line.p, Line.k, Line.e)
    /\ Consume((Res = "ok") = entries[Line.k].present, TRUE)

TExpire ==
    /\ Is("expire")
    /\ IF entries[Line.k].present
       THEN entries' = [entries EXCEPT ![Line.k].exp = TRUE]
       ELSE entries' = entries
    /\ UNCHANGED <<path, objs, bytes, count, dead, lock, pc, op, pend, handles, clock, nextVer, jan, limit, lastEv>>
    /\ Consume(TRUE, TRUE)

TSetLimit ==
    /\ Is("setlimit")
    /\ limit' = Line.l
    /\ UNCHANGED <<entries, path, objs, bytes, count, dead, lock, pc, op, pend, handles, clock, nextVer, jan, lastEv>>
    /\ Consume(TRUE, TRUE)

\* --- janitor: the line says from which gate the janitor goroutine was released ("from") and
\* where it parked next ("gate"), or that the cycle function returned ("done")
GateKind(g) == IF g = "" THEN "" ELSE SubSeq(g, 1, Len(g) - 2)   \* keys are single digits
GateKey(g)  == IF g = "" THEN 0
               ELSE LET c == SubSeq(g, Len(g), Len(g)) IN
                    CASE c = "0" -> 0 [] c = "1" -> 1 [] c = "2" -> 2 [] c = "3" -> 3 [] c = "4" -> 4
                      [] c = "5" -> 5 [] c = "6" -> 6 [] OTHER -> 0
NextGate == F(Line, "gate", "")
FromGate == F(Line, "from", "")
NextGateOK ==
    CASE Res = "done" -> jan'.phase = "idle"
      [] GateKind(NextGate) = "clean_visit" -> jan'.phase = "removing" /\ GateKey(NextGate) \in jan'.todo
      [] GateKind(NextGate) = "clean_done"  -> jan'.phase = "removing" /\ jan'.todo = {}
      [] GateKind(NextGate) = "evict_visit" -> jan'.phase = "evicting" /\ GateKey(NextGate) \in jan'.cands
      [] OTHER -> FALSE

TScan ==
    /\ Is("scan") /\ Res \in {"gate", "done"}
    /\ JanScan
    /\ Consume(TRUE, NextGateOK)

TJanRemove ==
    /\ Is("jremove") /\ Res \in {"gate", "done"} /\ GateKind(FromGate) = "clean_visit"
    /\ JanRemove(GateKey(FromGate))
    /\ Consume(TRUE, /\ NextGateOK
                     /\ (GateKey(FromGate) \in SkipKeys("clean_skip")) = (lastEv'.kind = "skip")
                     \* the real janitor removed the key iff the specification's janitor does
                     /\ Racy \/ (SnapEnt(GateKey(FromGate)).present = entries'[GateKey(FromGate)].present))

TJanEnsure ==
    /\ Is("ensure") /\ Res \in {"gate", "done"} /\ GateKind(FromGate) = "clean_done"
    /\ JanEnsure
    /\ Consume(TRUE, NextGateOK)

TJanEvict ==
    /\ Is("evstep") /\ Res \in {"gate", "done"} /\ GateKind(FromGate) = "evict_visit"
    /\ JanEvictVisit(GateKey(FromGate))
    /\ Consume(TRUE, /\ NextGateOK
                     /\ Racy \/ (SnapEnt(GateKey(FromGate)).present = entries'[GateKey(FromGate)].present))

\* steps the driver could not perform (schedule and real execution diverged): no state change
TNoop ==
    /\ l <= Len(TraceLog)
    /\ Res \in {"busy", "nostore", "nohandle", "nocycle", "unknown"}
    /\ Skip

TQuiesce ==
    /\ Is("quiesce")
    /\ UNCHANGED vars
    /\ Consume(StoredComplete, TRUE)

TDestroy ==
    /\ Is("destroy") /\ Res = "ok"
    /\ Skip

TraceInit == Init /\ l = 1 /\ bad = [line |-> 0] /\ TLCSet(1, [l |-> 1, bad |-> [line |-> 0]])

TraceNext ==
    \/ TReset \/ TStamp \/ TBlocked \/ TStore \/ TChunk \/ TCommit \/ TAbort \/ TCommitFailed \/ TAbortCommitted
    \/ TGet \/ TGetNoSlot \/ TRead \/ TReadEofAgain \/ TClose \/ TDelete \/ TUpdate \/ TExpire \/ TSetLimit
    \/ TScan \/ TJanRemove \/ TJanEnsure \/ TJanEvict \/ TNoop \/ TQuiesce \/ TDestroy

TraceSpec == TraceInit /\ [][TraceNext]_tvars

\* POSTCONDITION: report how far the trace was explained and the first soft mismatch
Report ==
    LET r == TLCGet(1) IN
    /\ PrintT(<<"TRACE-RESULT", r.l - 1, Len(TraceLog), r.bad>>)
=============================================================================
