---------------------------- MODULE CacheStoreGen ----------------------------
(* Behaviour generator for replay (specification -> code): CacheStore's actions, each        *)
(* recording itself in the history variable hist; TLC -simulate prints one JSON behaviour     *)
(* per random walk when the walk reaches Depth.                                               *)
EXTENDS MCCacheStore, Json

CONSTANTS Depth,
          Bias,   \* BOOLEAN: steer random walks towards populated caches, evictions and cleanup
          NF      \* store shapes <<nchunks, failAt>> the generator may choose (bias control)
VARIABLE hist

Rec(a, p, k, n, f, h, e, l, r) ==
    [a |-> a, p |-> p, k |-> k, n |-> n, f |-> f, h |-> h, e |-> e, l |-> l, r |-> r,
     la |-> [x \in Keys |-> entries'[x].la], clk |-> clock']

Log(r) == hist' = Append(hist, r)
B(p) == IF pc[p] = "blocked" THEN 1 ELSE 0

GenInit == Init /\ hist = <<>>

\* The driver cannot hold back a caller that is blocked on a shard lock: it runs as soon as the
\* lock is released. The generator therefore resumes blocked callers first.
ResumePending == \E p \in Clients : pc[p] = "blocked" /\ lock[ShardOf[pend[p][2]]] = Free
MayRun(p) == ~ResumePending \/ pc[p] = "blocked"
Useful(k) == ~Bias \/ entries[k].present \/ (\E q \in Clients : pc[q] = "copying" /\ op[q].k = k) \/ Present = {}
NoLimitChangeYet == \A i \in DOMAIN hist : hist[i].a # "setlimit"

GenNext ==
    \/ \E p \in Clients, k \in Keys, nf \in NF :
          MayRun(p) /\ StoreBegin(p, k, nf[1], nf[2]) /\ Log(Rec("store", p, k, nf[1], nf[2], 0, 0, 0, B(p)))
    \/ \E p \in Clients : ~ResumePending /\ StoreChunk(p) /\ Log(Rec("chunk", p, 0, 0, 0, 0, 0, 0, 0))
    \/ \E p \in Clients : ~ResumePending /\ StoreAbort(p) /\ Log(Rec("abort", p, 0, 0, 0, 0, 0, 0, 0))
    \/ \E p \in Clients : ~ResumePending /\ StoreCommit(p) /\ Log(Rec("commit", p, 0, 0, 0, 0, 0, 0, 0))
    \/ \E p \in Clients, k \in Keys : MayRun(p) /\ Useful(k) /\ Get(p, k) /\ Log(Rec("get", p, k, 0, 0, 0, 0, 0, B(p)))
    \/ \E p \in Clients, k \in Keys : Deletes /\ MayRun(p) /\ Useful(k) /\ Delete(p, k) /\ Log(Rec("delete", p, k, 0, 0, 0, 0, 0, B(p)))
    \/ \E h \in 1..MaxHandles : ~ResumePending /\ Read(h) /\ Log(Rec("read", 0, 0, 0, 0, h, 0, 0, 0))
    \/ \E h \in 1..MaxHandles : ~ResumePending /\ CloseH(h) /\ Log(Rec("close", 0, 0, 0, 0, h, 0, 0, 0))
    \/ \E p \in Clients, k \in Keys, e \in UpdVals :
          MayRun(p) /\ Useful(k) /\ UpdateMeta(p, k, e) /\ Log(Rec("update", p, k, 0, 0, 0, IF e THEN 1 ELSE 0, 0, B(p)))
    \/ \E p \in Clients, c \in Calls :
          ~ResumePending /\ (c[1] = "store" => <<c[3], c[4]>> \in NF) /\ Block(p, c) /\ Log(Rec(c[1], p, c[2], IF c[1] = "store" THEN c[3] ELSE 0,
                                 IF c[1] = "store" THEN c[4] ELSE 0, 0,
                                 IF c[1] = "update" /\ c[3] THEN 1 ELSE 0, 0, 0))
    \/ \E k \in Keys : ~ResumePending /\ Expire(k) /\ Log(Rec("expire", 0, k, 0, 0, 0, 0, 0, 0))
    \/ \E k \in Keys : ~ResumePending /\ JanRemove(k) /\ Log(Rec("jremove", 0, k, 0, 0, 0, 0, 0, 0))
    \/ ~ResumePending /\ (~Bias \/ bytes >= limit \/ \E k \in Present : entries[k].exp) /\ JanScan /\ Log(Rec("scan", 0, 0, 0, 0, 0, 0, 0, 0))
    \/ ~ResumePending /\ JanEnsure /\ Log(Rec("ensure", 0, 0, 0, 0, 0, 0, 0, 0))
    \/ ~ResumePending /\ JanEvictStep /\ Log(Rec("evstep", 0, 0, 0, 0, 0, 0, 0, 0))
    \/ \E l \in Limits : ~ResumePending /\ (~Bias \/ NoLimitChangeYet) /\ SetLimit(l) /\ Log(Rec("setlimit", 0, 0, 0, 0, 0, 0, l, 0))

GenSpec == GenInit /\ [][GenNext]_<<vars, hist>>

PrintHist == (TLCGet("level") # Depth) \/ PrintT(<<"HIST", ToJson(hist)>>)

-----------------------------------------------------------------------------
(* Targeted generation ("trap properties"): exhaustive search of the generator (VIEW without   *)
(* hist) prints the history of the first path TLC finds to every state in which one of the     *)
(* windows below is open.  The Go driver appends the steps that drive through the window.      *)
CONSTANT TrapCap      \* at most this many histories per trap and TLC worker

Copying(k)  == \E q \in Clients : pc[q] = "copying" /\ op[q].k = k
OpenH       == {h \in 1..MaxHandles : handles[h].open}
TrapDefs == <<
  \* 1 eviction snapshot holds a candidate that has vanished since, and the eviction still needs it
  jan.phase = "evicting" /\ bytes > Target(jan.lim) /\ (\E k \in jan.cands : ~entries[k].present),
  \* 2 eviction candidate whose shard is held by an in-progress store
  jan.phase = "evicting" /\ bytes > Target(jan.lim) /\ (\E k \in jan.cands : lock[ShardOf[k]] # Free),
  \* 3 cleanup found a key expired that has been refreshed / replaced since
  jan.phase = "removing" /\ (\E k \in jan.todo : entries[k].present /\ ~entries[k].exp /\ lock[ShardOf[k]] = Free),
  \* 4 cleanup key whose shard is held
  jan.phase = "removing" /\ (\E k \in jan.todo : lock[ShardOf[k]] # Free),
  \* 5 reader part-way through a body whose entry has been replaced by another version
  \E h \in OpenH : handles[h].pos > 0 /\ ~handles[h].eof /\ entries[handles[h].k].present
                     /\ entries[handles[h].k].ver # handles[h].ver,
  \* 6 reader whose entry has been removed
  \E h \in OpenH : ~handles[h].eof /\ ~entries[handles[h].k].present,
  \* 7 lookup waiting for the lock of a key that is being overwritten
  \E p \in Clients : pc[p] = "blocked" /\ pend[p][1] = "get" /\ Copying(pend[p][2]) /\ entries[pend[p][2]].present,
  \* 8 store-triggered eviction that had to skip something
  lastEv.kind = "store" /\ lastEv.skipped # {},
  \* 9 store-triggered eviction that removed something while the store goes on
  lastEv.kind = "store" /\ lastEv.removed # {} /\ (\E p \in Clients : pc[p] = "copying"),
  \* 10 cycle eviction in which the size weight overrode recency
  lastEv.kind = "cycle" /\ (\E r \in lastEv.removed : \E s \in {x \in Keys : lastEv.pre[x].present} \ lastEv.removed :
                                 lastEv.pre[r].la > lastEv.pre[s].la),
  \* 11 cycle eviction that stopped before exhausting its candidates
  lastEv.kind = "cycle" /\ lastEv.removed # {} /\
      ({x \in Keys : lastEv.pre[x].present} \ (lastEv.removed \cup lastEv.skipped) # {}),
  \* 12 overwrite in flight over an existing entry whose source will fail
  \E p \in Clients : pc[p] = "copying" /\ entries[op[p].k].present /\ op[p].failAt >= 0 /\ objs[op[p].obj].w = op[p].failAt,
  \* 13 a limit lowered at run time below the current size, janitor idle
  jan.phase = "idle" /\ bytes >= limit /\ limit # InitLimit /\ Present # {},
  \* 14 two callers blocked behind one store
  Cardinality({p \in Clients : pc[p] = "blocked"}) >= 2,
  \* 15 eviction snapshot taken, then one of its candidates is overwritten in flight
  jan.phase = "evicting" /\ (\E k \in jan.cands : entries[k].present /\ entries[k].ver # jan.pre[k].ver),
  \* 16 lookup of a fresh entry waiting behind a store on its shard (the entry may expire while it waits)
  \E p \in Clients : pc[p] = "blocked" /\ pend[p][1] = "get" /\ entries[pend[p][2]].present /\ ~entries[pend[p][2]].exp
>>
NTraps == Len(TrapDefs)
Trap(i) == TrapDefs[i] => ((TLCGet(i) >= TrapCap) \/ (TLCSet(i, TLCGet(i) + 1) /\ PrintT(<<"TRAP", i, ToJson(hist)>>)))
Traps == \A i \in 1..NTraps : Trap(i)
TrapInit == GenInit /\ (\A i \in 1..NTraps : TLCSet(i, 0))
TrapSpec == TrapInit /\ [][GenNext]_<<vars, hist>>
HistBound == Len(hist) <= Depth
=============================================================================
