// certdrv exercises the real PrivateCA (proxy/certs) with schedules of concurrent first requests,
// repeated requests and expiry for a set of CONNECT targets, and records for every returned
// certificate what crypto/x509 says about it. TLC judges the record (spec/CertCacheTrace.tla).
package main

import (
	"bufio"
	"context"
	"crypto/ecdsa"
	"crypto/elliptic"
	"crypto/rand"
	"crypto/rsa"
	"crypto/tls"
	"crypto/x509"
	"crypto/x509/pkix"
	"encoding/json"
	"encoding/pem"
	"flag"
	"fmt"
	"math/big"
	"net"
	"net/http"
	"net/http/httptest"
	"os"
	"sync"
	"sync/atomic"
	"time"

	"reservoir/config"
	"reservoir/logging"
	"reservoir/metrics"
	"reservoir/proxy"
	"reservoir/proxy/certs"
)

// present opens a CONNECT tunnel to target through the real proxy and returns the leaf certificate the client is shown on the wire
func present(phost, target string) (*x509.Certificate, error) {
	conn, err := net.DialTimeout("tcp", phost, 3*time.Second)
	if err != nil {
		return nil, err
	}
	defer conn.Close()
	conn.SetDeadline(time.Now().Add(8 * time.Second))
	fmt.Fprintf(conn, "CONNECT %s HTTP/1.1\r\nHost: %s\r\n\r\n", target, target)
	resp, err := http.ReadResponse(bufio.NewReader(conn), &http.Request{Method: "CONNECT"})
	if err != nil {
		return nil, err
	}
	if resp.StatusCode != 200 {
		return nil, fmt.Errorf("CONNECT answered %d", resp.StatusCode)
	}
	host, _, _ := net.SplitHostPort(target)
	tc := tls.Client(conn, &tls.Config{InsecureSkipVerify: true, ServerName: host})
	if err := tc.Handshake(); err != nil {
		return nil, err
	}
	pcs := tc.ConnectionState().PeerCertificates
	if len(pcs) == 0 {
		return nil, fmt.Errorf("no certificate presented")
	}
	return pcs[0], nil
}

type Step map[string]any

// makeCA writes a throw-away CA: an ECDSA P-256 key or (as the project's README tells operators to generate) an RSA-2048 key
func makeCA(dir string, useRSA bool) (string, string, *x509.CertPool) {
	if useRSA {
		priv, _ := rsa.GenerateKey(rand.Reader, 2048)
		return writeCA(dir, priv, &priv.PublicKey)
	}
	priv, _ := ecdsa.GenerateKey(elliptic.P256(), rand.Reader)
	return writeCA(dir, priv, &priv.PublicKey)
}

func writeCA(dir string, priv any, pub any) (string, string, *x509.CertPool) {
	serial, _ := rand.Int(rand.Reader, new(big.Int).Lsh(big.NewInt(1), 100))
	tmpl := x509.Certificate{SerialNumber: serial, Subject: pkix.Name{Organization: []string{"verif-ca"}}, NotBefore: time.Now().Add(-time.Hour),
		NotAfter: time.Now().Add(24 * time.Hour), KeyUsage: x509.KeyUsageCertSign | x509.KeyUsageDigitalSignature, BasicConstraintsValid: true, IsCA: true}
	der, _ := x509.CreateCertificate(rand.Reader, &tmpl, &tmpl, pub, priv)
	cf, kf := dir+"/ca.crt", dir+"/ca.key"
	os.WriteFile(cf, pem.EncodeToMemory(&pem.Block{Type: "CERTIFICATE", Bytes: der}), 0o600)
	kb, _ := x509.MarshalPKCS8PrivateKey(priv)
	os.WriteFile(kf, pem.EncodeToMemory(&pem.Block{Type: "PRIVATE KEY", Bytes: kb}), 0o600)
	pool := x509.NewCertPool()
	c, _ := x509.ParseCertificate(der)
	pool.AddCert(c)
	return cf, kf, pool
}

func main() {
	in := flag.String("in", "", "input JSON")
	outp := flag.String("out", "", "output NDJSON")
	flag.Parse()
	raw, _ := os.ReadFile(*in)
	var input struct {
		Targets    map[string]string `json:"targets"` // host id -> CONNECT target
		Behaviours [][]Step          `json:"behaviours"`
	}
	if err := json.Unmarshal(raw, &input); err != nil {
		fmt.Fprintln(os.Stderr, err)
		os.Exit(2)
	}
	f, _ := os.Create(*outp)
	defer f.Close()
	enc := json.NewEncoder(f)
	dir, _ := os.Getwd()
	for bi, steps := range input.Behaviours {
		// the CA's key type is part of the behaviour (first step {"a":"ca","rsa":true}), so that a replay uses the same one
		useRSA := false
		if len(steps) > 0 && steps[0]["a"] == "ca" {
			useRSA, _ = steps[0]["rsa"].(bool)
		}
		cf, kf, pool := makeCA(dir, useRSA)
		ca, err := certs.NewPrivateCA(cf, kf)
		if err != nil {
			fmt.Fprintln(os.Stderr, err)
			os.Exit(2)
		}
		metrics.Global = metrics.NewMetrics()
		pcfg := config.NewDefault()
		pcfg.Cache.Type.Overwrite(config.CacheTypeMemory)
		logging.Init(pcfg)
		pctx, pcancel := context.WithCancel(context.Background())
		px, err := proxy.NewProxy(pcfg, ca, pctx)
		if err != nil {
			fmt.Fprintln(os.Stderr, err)
			os.Exit(2)
		}
		psrv := httptest.NewServer(px)
		phost := psrv.Listener.Addr().String()
		index := map[string]int{} // certificate serial -> small index
		last := map[string]*tls.Certificate{}
		enc.Encode(map[string]any{"b": bi + 1, "a": "reset", "ca_rsa": useRSA})
		idx := func(c *tls.Certificate) int {
			if c == nil || c.Leaf == nil {
				return 0 // not a certificate at all
			}
			k := c.Leaf.SerialNumber.String()
			if _, ok := index[k]; !ok {
				index[k] = len(index) + 1
			}
			return index[k]
		}
		// the certificate a client is shown for target: index and what crypto/x509 says about it (the handshake proves the key)
		wire := func(target string) (int, bool, bool) {
			leaf, err := present(phost, target)
			if err != nil {
				return 0, false, true
			}
			host, _, _ := net.SplitHostPort(target)
			k := leaf.SerialNumber.String()
			if _, ok := index[k]; !ok {
				index[k] = len(index) + 1
			}
			ok := leaf.VerifyHostname(host) == nil && len(leaf.DNSNames)+len(leaf.IPAddresses) == 1
			if _, err := leaf.Verify(x509.VerifyOptions{Roots: pool, KeyUsages: []x509.ExtKeyUsage{x509.ExtKeyUsageServerAuth}}); err != nil {
				ok = false
			}
			return index[k], ok, false
		}
		check := func(c *tls.Certificate, target string) bool {
			host, _, _ := net.SplitHostPort(target)
			if c == nil || c.Leaf == nil {
				return false
			}
			if err := c.Leaf.VerifyHostname(host); err != nil {
				return false
			}
			// exactly that host: one name in total
			if len(c.Leaf.DNSNames)+len(c.Leaf.IPAddresses) != 1 {
				return false
			}
			if _, err := c.Leaf.Verify(x509.VerifyOptions{Roots: pool, KeyUsages: []x509.ExtKeyUsage{x509.ExtKeyUsageServerAuth}}); err != nil {
				return false
			}
			now := time.Now()
			if now.Before(c.Leaf.NotBefore) || now.After(c.Leaf.NotAfter) {
				return false
			}
			pk, ok := c.PrivateKey.(*ecdsa.PrivateKey)
			if !ok {
				return false
			}
			return pk.PublicKey.Equal(c.Leaf.PublicKey)
		}
		for _, st := range steps {
			a, _ := st["a"].(string)
			if a == "ca" {
				continue
			}
			hid, _ := st["host"].(string)
			target := input.Targets[hid]
			line := map[string]any{"b": bi + 1, "a": a, "host": hid, "target": target}
			switch a {
			case "get":
				n := 1
				if v, ok := st["n"].(float64); ok {
					n = int(v)
				}
				var panicked atomic.Bool
				wserials, woks, werr := []int{}, []bool{}, false
				if n == 1 {
					// the tunnel is the first to ask (after an expiry: the proxy itself must replace the certificate)
					i, ok, e := wire(target)
					if e {
						werr = true
					} else {
						wserials, woks = append(wserials, i), append(woks, ok)
					}
				}
				res := make([]*tls.Certificate, n)
				errs := make([]error, n)
				var wg sync.WaitGroup
				start := make(chan struct{})
				for i := 0; i < n; i++ {
					wg.Add(1)
					go func(i int) {
						defer wg.Done()
						defer func() {
							if r := recover(); r != nil {
								errs[i] = fmt.Errorf("panic: %v", r)
								panicked.Store(true)
							}
						}()
						<-start
						res[i], errs[i] = ca.GetCertForHost(target)
					}(i)
				}
				close(start)
				wg.Wait()
				serials, oks := []int{}, []bool{}
				anyErr := false
				for i := range res {
					if errs[i] != nil {
						anyErr = true
						continue
					}
					serials = append(serials, idx(res[i]))
					oks = append(oks, check(res[i], target))
				}
				// what the cache holds afterwards: one more (sequential) call, which must not create anything new
				after := 0
				func() {
					defer func() {
						if r := recover(); r != nil {
							panicked.Store(true)
							anyErr = true
						}
					}()
					if c, err := ca.GetCertForHost(target); err == nil {
						after = idx(c)
						last[hid] = c
						serials = append(serials, after)
						oks = append(oks, check(c, target))
					} else {
						anyErr = true
					}
				}()
				// and what a client is shown on a tunnel now: the certificate the cache holds
				wi, wok, we := wire(target)
				if we {
					werr = true
				} else {
					wserials, woks = append(wserials, wi), append(woks, wok)
				}
				serials, oks = append(serials, wserials...), append(oks, woks...)
				line["wire"], line["wire_err"] = wi, werr
				line["panicked"] = panicked.Load()
				line["serials"], line["ok"], line["err"], line["after"], line["n"] = serials, oks, anyErr, after, n
			case "expire":
				if c := last[hid]; c != nil {
					c.Leaf.NotAfter = time.Now().Add(-time.Minute)
				} else {
					line["a"] = "reset_noop"
					continue
				}
			case "badtarget":
				func() {
					defer func() {
						if r := recover(); r != nil {
							line["res"] = "panic"
						}
					}()
					if _, err := ca.GetCertForHost(target); err != nil {
						line["res"] = "error"
					} else {
						line["res"] = "accepted"
					}
				}()
			}
			enc.Encode(line)
		}
		psrv.CloseClientConnections()
		psrv.Close()
		pcancel()
	}
}
