"""C14 No interleaving deadlocks the cache or a request."""
import cachefam
from props.cachecommon import run_cache_property, replay_file

INV = ["CountersNonNegative"]


def mcs(tier):
    out = []
    try:
        import lockfam
        out += lockfam.mcs(tier)
    except ImportError:
        pass
    return out


def fams(tier):
    return cachefam.lock_families("memory") + cachefam.lock_families("file")


def traps(tier):
    return [t for be in ('memory','file') for t in cachefam.trap_families(be)]


def proxy_requests_complete(tier, seed):
    """Proxy-level part: every proxied request completes under evictions / cleanup landing inside revalidations, disconnects
    and store refusals (replay families of spec/Proxy.tla; a step that never settles or an answer that never comes)."""
    import vlib, proxyfam
    from props.proxycommon import confirmed
    from concurrent.futures import ThreadPoolExecutor
    fl = proxyfam.reval_families() + proxyfam.flight_families()[:2] + proxyfam.refusal_families()
    n = 30 if tier == "quick" else 250
    vlib.go_build("proxydrv")
    with ThreadPoolExecutor(max_workers=6) as ex:
        results = list(ex.map(lambda t: proxyfam.run_family(t[1], n, seed * 1000 + 600 + t[0]), enumerate(fl)))
    out = {"violations": [], "notes": [], "coverage": {"proxy_level_families": []}, "traces": 0}
    for f, r in zip(fl, results):
        out["traces"] += r["behaviours"]
        out["coverage"]["proxy_level_families"].append({k: r[k] for k in ("family", "behaviours", "lines", "consumed")})
        done = set()
        for p in r["problems"]:
            key = (p["event"].get("a"), tuple(p["cats"]))
            if "C14" in p["props"] and key not in done:
                if confirmed(f, p, "C14"):
                    done.add(key)
                    out["violations"].append(vlib.save_replay("C14", "%s-%s-seed%d.json" % (f["name"], vlib.digest(p["replay_input"]), seed),
                                                              {"kind": "proxydrv", "problem": {k: p[k] for k in ("props", "cats", "line", "event", "context", "kind")},
                                                               "input": p["replay_input"]}))
                else:
                    out["notes"].append("proxy family %s: an unsettled step (line %d) did not reproduce when replayed alone; not counted" % (f["name"], p["line"]))
    return out


def run(tier, seed):
    return run_cache_property(
        "C14", tier, seed, mcs, fams, 60, 600, "model_checking",
        "TLC checks deadlock freedom and termination of the lock-level model (CacheLocks) for shard maps with 1, 2, "
        "3 and distinct shards; behaviours of CacheStore with 3 clients, callers blocked on held shards, "
        "store-triggered eviction over same-shard candidates, janitor cycles gated at every TryLock and run-time "
        "limit changes are replayed on both real backends under a watchdog: a step whose goroutine neither returns, "
        "parks at a harness gate nor is explained by the model's Block action within the watchdog is a hang.",
        ["liveness is decided on the model; on the code it is a watchdog (8 s per step) with goroutine wait-reason "
         "inspection", "proxy level: revalidation, flight and store-refusal replay families of spec/Proxy.tla (a step that never settles, an answer that never comes)"],
        extra_runs=[proxy_requests_complete])


def replay(path):
    import json
    if json.load(open(path)).get("kind") == "proxydrv":
        from props.proxycommon import replay_file as px_replay
        return px_replay("C14", path)
    return replay_file("C14", path)
