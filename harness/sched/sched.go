// Package sched drives goroutines of the real code deterministically: each worker is a
// long-lived goroutine with a known goroutine id; the driver hands it one call at a time and
// can tell whether the call has returned, is parked at a harness gate, or is blocked inside a
// sync primitive (runtime wait reason), without guessing with sleeps.
package sched

import (
	"bytes"
	"fmt"
	"regexp"
	"runtime"
	"strconv"
	"strings"
	"sync"
	"sync/atomic"
	"time"
)

// GID returns the current goroutine's id.
func GID() int64 {
	var buf [64]byte
	n := runtime.Stack(buf[:], false)
	// "goroutine 123 [running]:"
	f := bytes.Fields(buf[:n])
	if len(f) < 2 {
		return -1
	}
	id, _ := strconv.ParseInt(string(f[1]), 10, 64)
	return id
}

var hdr = regexp.MustCompile(`(?m)^goroutine (\d+) \[([^\]]+)\]:`)

// States returns goroutine id -> wait reason (first component, e.g. "sync.Mutex.Lock").
func States() (map[int64]string, string) {
	buf := make([]byte, 1<<20)
	for {
		n := runtime.Stack(buf, true)
		if n < len(buf) {
			buf = buf[:n]
			break
		}
		buf = make([]byte, 2*len(buf))
	}
	out := map[int64]string{}
	for _, m := range hdr.FindAllSubmatch(buf, -1) {
		id, _ := strconv.ParseInt(string(m[1]), 10, 64)
		st := string(m[2])
		if i := bytes.IndexByte(m[2], ','); i >= 0 {
			st = string(m[2][:i])
		}
		out[id] = st
	}
	return out, string(buf)
}

func IsLockWait(st string) bool {
	switch st {
	case "sync.Mutex.Lock", "sync.RWMutex.Lock", "sync.RWMutex.RLock", "semacquire", "sync.Cond.Wait", "sync.WaitGroup.Wait":
		return true
	}
	return false
}

// WaitsInPackage reports whether goroutine gid, as shown in a dump of States(), waits for a lock taken directly by
// code of the given package prefix (the first frame below runtime/sync/internal frames). A goroutine that spins and
// is merely caught inside the logger's mutex is not "blocked on a cache lock".
func WaitsInPackage(dump string, gid int64, prefix string) bool {
	head := "goroutine " + strconv.FormatInt(gid, 10) + " ["
	i := strings.Index(dump, "\n"+head)
	if strings.HasPrefix(dump, head) {
		i = -1
	} else if i < 0 {
		return false
	}
	rest := dump[i+1:]
	if j := strings.Index(rest, "\n\n"); j >= 0 {
		rest = rest[:j]
	}
	lines := strings.Split(rest, "\n")
	for _, ln := range lines[1:] {
		if strings.HasPrefix(ln, "\t") || ln == "" {
			continue
		}
		if strings.HasPrefix(ln, "sync.") || strings.HasPrefix(ln, "runtime.") || strings.HasPrefix(ln, "internal/") || strings.HasPrefix(ln, "sync/") {
			continue
		}
		return strings.HasPrefix(ln, prefix)
	}
	return false
}

type Status int

const (
	Idle    Status = iota // no call in flight
	Running               // call in flight, not settled
	Parked                // parked at a harness gate
	Blocked               // blocked in a sync primitive
	Done                  // call returned, result not yet collected
)

func (s Status) String() string {
	return [...]string{"idle", "running", "parked", "blocked", "done"}[s]
}

var seq atomic.Int64

// Worker runs calls one at a time on its own goroutine.
type Worker struct {
	Name    string
	LockPkg string // if set: only a wait entered directly from this package counts as "blocked" (see WaitsInPackage)
	gid     int64
	calls   chan func() any
	mu      sync.Mutex
	status  Status
	result  any
	doneSeq int64
	gate    string // description of the gate it is parked at
	gateSeq int64
	resume  chan struct{}
}

func NewWorker(name string) *Worker {
	w := &Worker{Name: name, calls: make(chan func() any), resume: make(chan struct{})}
	ready := make(chan struct{})
	go func() {
		w.gid = GID()
		close(ready)
		for f := range w.calls {
			r := f()
			w.mu.Lock()
			w.result = r
			w.status = Done
			w.doneSeq = seq.Add(1)
			w.mu.Unlock()
		}
	}()
	<-ready
	return w
}

func (w *Worker) GID() int64 { return w.gid }
func (w *Worker) Stop()      { close(w.calls) }

// Start hands f to the worker goroutine; it must be Idle.
func (w *Worker) Start(f func() any) {
	w.mu.Lock()
	if w.status != Idle {
		w.mu.Unlock()
		panic(fmt.Sprintf("worker %s: Start while %v", w.Name, w.status))
	}
	w.status = Running
	w.mu.Unlock()
	w.calls <- f
}

// Park is called ON the worker goroutine (from a gate inside the code under test or from a
// harness reader): it marks the worker parked and blocks until Release.
func (w *Worker) Park(gate string) {
	w.mu.Lock()
	w.status = Parked
	w.gate = gate
	w.gateSeq = seq.Add(1)
	w.mu.Unlock()
	<-w.resume
}

// Release lets a parked worker continue.
func (w *Worker) Release() {
	w.mu.Lock()
	if w.status != Parked {
		w.mu.Unlock()
		panic(fmt.Sprintf("worker %s: Release while %v", w.Name, w.status))
	}
	w.status = Running
	w.gate = ""
	w.mu.Unlock()
	w.resume <- struct{}{}
}

// Peek returns the current status without waiting.
func (w *Worker) Peek() (Status, string, int64) {
	w.mu.Lock()
	defer w.mu.Unlock()
	s := w.status
	if s == Done {
		return s, "", w.doneSeq
	}
	return s, w.gate, w.gateSeq
}

// Collect returns the result of a Done call and makes the worker Idle.
func (w *Worker) Collect() any {
	w.mu.Lock()
	defer w.mu.Unlock()
	if w.status != Done {
		panic(fmt.Sprintf("worker %s: Collect while %v", w.Name, w.status))
	}
	r := w.result
	w.result = nil
	w.status = Idle
	return r
}

// ErrHang is returned by Settle when the watchdog expires.
type ErrHang struct {
	Worker string
	State  string
	Dump   string
}

func (e *ErrHang) Error() string {
	return fmt.Sprintf("worker %s did not settle (goroutine state %q)", e.Worker, e.State)
}

// Settle waits until the worker's call has returned (Done), is parked at a gate (Parked) or
// is blocked in a sync primitive for two consecutive observations (Blocked). If allowBlocked
// is false a lock wait is not accepted as settled and the watchdog decides.
func (w *Worker) Settle(allowBlocked bool, watchdog time.Duration) (Status, string, error) {
	deadline := time.Now().Add(watchdog)
	lockSeen := 0
	spin := 0
	for {
		s, g, _ := w.Peek()
		if s == Done || s == Parked || s == Idle {
			return s, g, nil
		}
		spin++
		if spin < 200 {
			runtime.Gosched()
			continue
		}
		if spin%4 == 0 {
			st, dump := States()
			if IsLockWait(st[w.gid]) && (w.LockPkg == "" || WaitsInPackage(dump, w.gid, w.LockPkg)) {
				lockSeen++
				if lockSeen >= 2 && allowBlocked {
					// re-check it did not finish meanwhile
					if s2, g2, _ := w.Peek(); s2 == Done || s2 == Parked {
						return s2, g2, nil
					}
					return Blocked, st[w.gid], nil
				}
			} else {
				lockSeen = 0
			}
			if time.Now().After(deadline) {
				return Running, st[w.gid], &ErrHang{Worker: w.Name, State: st[w.gid], Dump: dump}
			}
		}
		time.Sleep(20 * time.Microsecond)
	}
}
